"""Contracts for the declarative front end SimpleSimulation/schematic.py (C15 second clause, C14, C19): the handler table maps
each type name to its own symbol class and passes name, reverse and the values; direction / placement helpers call exactly
the named method; unknown types and missing fields raise the documented errors."""
import numpy as np
from pyvc.spec import contract, eq, implies, iff, raised
from CircuitCalculator.SimpleCircuit import Elements as elm
from CircuitCalculator.SimpleSimulation import schematic as sch
from CircuitCalculator.SimpleSimulation import errors

P = ['C15', 'C19']

HANDLERS = {
    'resistor': ('Resistor', {'R': 'pos'}), 'conductance': ('Conductance', {'G': 'pos'}), 'impedance': ('Impedance', {'Z': 'complex'}),
    'admittance': ('Admittance', {'Y': 'complex'}), 'capacitor': ('Capacitor', {'C': 'pos'}), 'inductance': ('Inductance', {'L': 'pos'}),
    'lamp': ('Lamp', {'V_ref': 'pos', 'P_ref': 'pos'}), 'voltage_source': ('VoltageSource', {'V': 'real'}),
    'ac_voltage_source': ('ACVoltageSource', {'V': 'real', 'w': 'pos', 'phi': 'real'}), 'complex_voltage_source': ('ComplexVoltageSource', {'V': 'complex'}),
    'current_source': ('CurrentSource', {'I': 'real'}), 'ac_current_source': ('ACCurrentSource', {'I': 'real', 'w': 'pos', 'phi': 'real'}),
    'complex_current_source': ('ComplexCurrentSource', {'I': 'complex'}),
}


def handler(tname, cname, params):
    @contract('CircuitCalculator.SimpleSimulation.schematic.transform_to_schematic_element', props=P, name='declared_' + tname)
    class _c:
        def inputs(g):
            d = {'type': tname, 'name': g.label('name'), 'reverse': g.bool('reverse')}
            for k, t in params.items():
                d[k] = g.complex(k) if t == 'complex' else (g.pos(k) if t == 'pos' else g.real(k))
            return dict(element=d)

        def requires(element):
            return all([element[k] != 0 for k, t in params.items() if t == 'complex'])

        def ensures(result, element):
            direct = getattr(elm, cname)(**{k: v for k, v in element.items() if k != 'type'})
            out = {'own symbol class': type(result) is getattr(elm, cname), 'name and reversal flag': result.name == element['name'] and result.is_reverse == element['reverse']}
            for k in params:
                # the value properties of the declared element equal those of the same element constructed programmatically
                out['value ' + k] = eq(getattr(result, k), getattr(direct, k))
            return out
    return _c


for _t, (_c, _p) in HANDLERS.items():
    handler(_t, _c, _p)


@contract('CircuitCalculator.SimpleSimulation.schematic.transform_to_schematic_element', props=P)
class declared_wires_nodes_ground:
    def inputs(g):
        return dict(name=g.label('name'))

    def call(f, name):
        return (f({'type': 'line'}), f({'type': 'line', 'name': name}), f({'type': 'node', 'name': name}), f({'type': 'ground'}), f({'type': 'ground', 'name': name}))

    def ensures(result, name):
        wire, named_wire, node, gnd, named_gnd = result
        return {'plain wire': type(wire) is elm.Line, 'named wire is a labelled line': type(named_wire) is elm.LabeledLine and named_wire.name == name,
                'node': type(node) is elm.Node and node.node_id == name, 'ground': type(gnd) is elm.Ground,
                'named ground': named_gnd.node_id == name}


@contract('CircuitCalculator.SimpleSimulation.schematic.transform_to_schematic_element', props=P)
class declared_malformed:
    total = True

    def inputs(g):
        return dict(fault=g.choice('fault', ['no type', 'unknown type', 'missing value']), R=g.pos('R'), tname=g.label('tname'))

    def requires(fault, R, tname):
        return not any([tname == k for k in sch.element_handlers.keys()])

    def call(f, fault, R, tname):
        d = {'no type': {'name': 'R1', 'R': R}, 'unknown type': {'type': tname, 'name': 'R1', 'R': R}, 'missing value': {'type': 'resistor', 'name': 'R1'}}[fault]
        return f(d)

    def ensures(result, fault, R, tname):
        return {'rejected': raised(result),
                'missing type / value': implies(fault != 'unknown type', raised(result, errors.MissingArgument)),
                'unknown type': implies(fault == 'unknown type', raised(result, errors.UnknownCircuitElement))}


@contract('CircuitCalculator.SimpleSimulation.schematic.element_handlers', props=P, no_xcheck=True)
class handler_table_keys:
    def inputs(g):
        return dict()

    def call(f):
        return f

    def ensures(result):
        keys = list(HANDLERS) + ['line', 'node', 'ground']
        return {'documented types': all([k in result for k in keys]) and len(result) == len(keys)}


class Recorder:
    """Stands for a schemdraw element: records the placement calls it receives."""
    def __init__(self):
        self.calls = []
        self.end = 'END-POINT'

    def right(self, l):
        self.calls.append(('right', l))
        return self

    def left(self, l):
        self.calls.append(('left', l))
        return self

    def up(self, l):
        self.calls.append(('up', l))
        return self

    def down(self, l):
        self.calls.append(('down', l))
        return self

    def at(self, p):
        self.calls.append(('at', p))
        return self


@contract('CircuitCalculator.SimpleSimulation.schematic.apply_direction_and_length', props=['C15'])
class direction_and_length:
    frame = False

    def inputs(g):
        return dict(direction=g.choice('direction', ['right', 'left', 'up', 'down', '', 'sideways']), length=g.real('length'), unit=g.real('unit'))

    def call(f, direction, length, unit):
        r = Recorder()
        out = f(r, direction, length, unit)
        return (out is r, r.calls)

    def ensures(result, direction, length, unit):
        same, calls = result
        named = direction in ('right', 'left', 'up', 'down')
        return {'returns the element': same,
                'exactly the named direction with length*unit': implies(named, lambda: len(calls) == 1 and calls[0][0] == direction and eq(calls[0][1], length * unit)),
                'no placement call otherwise': implies(not named, len(calls) == 0)}


@contract('CircuitCalculator.SimpleSimulation.schematic.apply_position', props=['C15'])
class place_after:
    frame = False

    def inputs(g):
        return dict(has_origin=g.bool('has_origin'))

    def call(f, has_origin):
        r, o = Recorder(), Recorder()
        out = f(r, o if has_origin else None)
        return (out is r, r.calls)

    def ensures(result, has_origin):
        same, calls = result
        return {'returns the element': same, 'placed at the end of the named element': calls == ([('at', 'END-POINT')] if has_origin else [])}


# ---- fill(): the glue between the declared description and the drawing (C14: annotations are requested as declared; C19: the
# ---- circuit is translated - and thereby validated - even when no annotation is requested)


class StubSchematic:
    def __init__(self):
        self.added = []
        self.elements = []

    def __iadd__(self, x):
        self.added.append(x)
        return self


class StubSolution:
    def __init__(self, log):
        self.log = log

    def draw_voltage(self, **kw):
        self.log.append(('voltage', kw))
        return ('voltage label', len(self.log))

    def draw_current(self, **kw):
        self.log.append(('current', kw))
        return ('current label', len(self.log))

    def draw_potential(self, **kw):
        self.log.append(('potential', kw))
        return ('potential label', len(self.log))

    def draw_power(self, **kw):
        self.log.append(('power', kw))
        return ('power label', len(self.log))


class StubDefinition:
    def __init__(self, voltages, currents, potentials, powers, creator):
        self.voltages, self.currents, self.potentials, self.powers = voltages, currents, potentials, powers
        self.diagram_solution_creator = creator


def annotation(g, stem, with_reverse):
    d = {'name': g.label(stem)}
    if with_reverse:
        d['reverse'] = g.bool(stem + '_reverse')
    return d


@contract('CircuitCalculator.SimpleSimulation.schematic.fill', props=['C14', 'C19'], name='fill_requests_annotations_as_declared',
          bounded='one declared annotation of each kind (with and without a reverse flag), stubbed solution object, no elements')
class fill_annotations:
    frame = False

    def inputs(g):
        return dict(v=annotation(g, 'v', g.bool('v_has_reverse')), c=annotation(g, 'c', g.bool('c_has_reverse')), p=annotation(g, 'p', False),
                    w=annotation(g, 'w', g.bool('w_has_reverse')), declared=g.choice('declared', ['all four', 'none']))

    def call(f, v, c, p, w, declared):
        log, created = [], []

        def creator(schematic):
            created.append(schematic)
            return StubSolution(log)
        s = StubSchematic()
        some = declared == 'all four'
        f(s, [], 7, False, StubDefinition([v] if some else [], [c] if some else [], [p] if some else [], [w] if some else [], creator))
        return (log, created, s)

    def ensures(result, v, c, p, w, declared):
        log, created, s = result
        some = declared == 'all four'
        expected = [('voltage', v), ('current', c), ('potential', p), ('power', w)] if some else []
        return {'the circuit is translated exactly once, whether or not annotations are requested': len(created) == 1 and created[0] is s,
                'each declared annotation is requested with exactly its declared options (name, reverse)': eq(log, expected),
                'every produced label is added to the drawing': len(s.added) == len(expected)}


@contract('CircuitCalculator.SimpleSimulation.schematic.fill', props=['C19', 'C14'], name='fill_reports_illegal_values',
          bounded='stubbed solution creator that rejects the circuit; annotations declared or not')
class fill_rejects:
    frame = False
    total = True

    def inputs(g):
        return dict(declared=g.bool('declared'), name=g.label('name'))

    def call(f, declared, name):
        def creator(schematic):
            raise ValueError('negative resistance')
        return f(StubSchematic(), [], 7, False, StubDefinition([{'name': name}] if declared else [], [], [], [], creator))

    def ensures(result, declared, name):
        return {'an illegal element value is reported, with or without declared annotations': raised(result, errors.IllegalElementValue)}


@contract('CircuitCalculator.SimpleSimulation.schematic.fill', props=['C15', 'C20', 'C19'], name='fill_does_not_consume_the_description',
          bounded='one declared resistor with direction and length, stubbed solution object')
class fill_keeps_description:
    """The declared elements are read, never consumed: the same description can be used again and gives the same drawing."""
    def inputs(g):
        return dict(elements=[{'type': 'resistor', 'name': g.label('name'), 'R': g.pos('R'), 'direction': g.choice('direction', ['right', 'up']), 'length': g.pos('length')}])

    def call(f, elements):
        first, second = StubSchematic(), StubSchematic()
        f(first, elements, 7, False, StubDefinition([], [], [], [], lambda schematic: StubSolution([])))
        f(second, elements, 7, False, StubDefinition([], [], [], [], lambda schematic: StubSolution([])))
        return (first.added, second.added)

    def ensures(result, elements):
        first, second = result
        e = elements[0]
        return {'one element placed per use': len(first) == 1 and len(second) == 1,
                'second use builds the same symbol': second[0].name == first[0].name and eq(second[0].R, first[0].R) and first[0].name == e['name'] and eq(first[0].R, e['R']),
                'description still complete': 'direction' in e and 'length' in e and 'type' in e and 'name' in e}
