"""Contracts for the declarative front end SimpleSimulation/schematic.py (C15 second clause, C14, C19): the handler table maps
each type name to its own symbol class and passes name, reverse and the values; direction / placement helpers call exactly
the named method; unknown types and missing fields raise the documented errors."""
import numpy as np
from pyvc.spec import contract, eq, implies, iff, raised
from CircuitCalculator.SimpleCircuit import Elements as elm
from CircuitCalculator.SimpleSimulation import schematic as sch
from CircuitCalculator.SimpleSimulation import errors

P = ['C15', 'C19']

HANDLERS = {
    'resistor': ('Resistor', {'R': 'pos'}), 'conductance': ('Conductance', {'G': 'pos'}), 'impedance': ('Impedance', {'Z': 'complex'}),
    'admittance': ('Admittance', {'Y': 'complex'}), 'capacitor': ('Capacitor', {'C': 'pos'}), 'inductance': ('Inductance', {'L': 'pos'}),
    'lamp': ('Lamp', {'V_ref': 'pos', 'P_ref': 'pos'}), 'voltage_source': ('VoltageSource', {'V': 'real'}),
    'ac_voltage_source': ('ACVoltageSource', {'V': 'real', 'w': 'pos', 'phi': 'real'}), 'complex_voltage_source': ('ComplexVoltageSource', {'V': 'complex'}),
    'current_source': ('CurrentSource', {'I': 'real'}), 'ac_current_source': ('ACCurrentSource', {'I': 'real', 'w': 'pos', 'phi': 'real'}),
    'complex_current_source': ('ComplexCurrentSource', {'I': 'complex'}),
}


def handler(tname, cname, params):
    @contract('CircuitCalculator.SimpleSimulation.schematic.transform_to_schematic_element', props=P, name='declared_' + tname)
    class _c:
        def inputs(g):
            d = {'type': tname, 'name': g.label('name'), 'reverse': g.bool('reverse')}
            for k, t in params.items():
                d[k] = g.complex(k) if t == 'complex' else (g.pos(k) if t == 'pos' else g.real(k))
            return dict(element=d)

        def requires(element):
            return all([element[k] != 0 for k, t in params.items() if t == 'complex'])

        def ensures(result, element):
            direct = getattr(elm, cname)(**{k: v for k, v in element.items() if k != 'type'})
            out = {'own symbol class': type(result) is getattr(elm, cname), 'name and reversal flag': result.name == element['name'] and result.is_reverse == element['reverse']}
            for k in params:
                # the value properties of the declared element equal those of the same element constructed programmatically
                out['value ' + k] = eq(getattr(result, k), getattr(direct, k))
            return out
    return _c


for _t, (_c, _p) in HANDLERS.items():
    handler(_t, _c, _p)


@contract('CircuitCalculator.SimpleSimulation.schematic.transform_to_schematic_element', props=P)
class declared_wires_nodes_ground:
    def inputs(g):
        return dict(name=g.label('name'))

    def call(f, name):
        return (f({'type': 'line'}), f({'type': 'line', 'name': name}), f({'type': 'node', 'name': name}), f({'type': 'ground'}), f({'type': 'ground', 'name': name}))

    def ensures(result, name):
        wire, named_wire, node, gnd, named_gnd = result
        return {'plain wire': type(wire) is elm.Line, 'named wire is a labelled line': type(named_wire) is elm.LabeledLine and named_wire.name == name,
                'node': type(node) is elm.Node and node.node_id == name, 'ground': type(gnd) is elm.Ground,
                'named ground': named_gnd.node_id == name}


@contract('CircuitCalculator.SimpleSimulation.schematic.transform_to_schematic_element', props=P)
class declared_malformed:
    total = True

    def inputs(g):
        return dict(fault=g.choice('fault', ['no type', 'unknown type', 'missing value']), R=g.pos('R'), tname=g.label('tname'))

    def requires(fault, R, tname):
        return not any([tname == k for k in sch.element_handlers.keys()])

    def call(f, fault, R, tname):
        d = {'no type': {'name': 'R1', 'R': R}, 'unknown type': {'type': tname, 'name': 'R1', 'R': R}, 'missing value': {'type': 'resistor', 'name': 'R1'}}[fault]
        return f(d)

    def ensures(result, fault, R, tname):
        return {'rejected': raised(result),
                'missing type / value': implies(fault != 'unknown type', raised(result, errors.MissingArgument)),
                'unknown type': implies(fault == 'unknown type', raised(result, errors.UnknownCircuitElement))}


@contract('CircuitCalculator.SimpleSimulation.schematic.element_handlers', props=P, no_xcheck=True)
class handler_table_keys:
    def inputs(g):
        return dict()

    def call(f):
        return f

    def ensures(result):
        keys = list(HANDLERS) + ['line', 'node', 'ground']
        return {'documented types': all([k in result for k in keys]) and len(result) == len(keys)}


class Recorder:
    """Stands for a schemdraw element: records the placement calls it receives."""
    def __init__(self):
        self.calls = []
        self.end = 'END-POINT'

    def right(self, l):
        self.calls.append(('right', l))
        return self

    def left(self, l):
        self.calls.append(('left', l))
        return self

    def up(self, l):
        self.calls.append(('up', l))
        return self

    def down(self, l):
        self.calls.append(('down', l))
        return self

    def at(self, p):
        self.calls.append(('at', p))
        return self


@contract('CircuitCalculator.SimpleSimulation.schematic.apply_direction_and_length', props=['C15'])
class direction_and_length:
    frame = False

    def inputs(g):
        return dict(direction=g.choice('direction', ['right', 'left', 'up', 'down', '', 'sideways']), length=g.real('length'), unit=g.real('unit'))

    def call(f, direction, length, unit):
        r = Recorder()
        out = f(r, direction, length, unit)
        return (out is r, r.calls)

    def ensures(result, direction, length, unit):
        same, calls = result
        named = direction in ('right', 'left', 'up', 'down')
        return {'returns the element': same,
                'exactly the named direction with length*unit': implies(named, lambda: len(calls) == 1 and calls[0][0] == direction and eq(calls[0][1], length * unit)),
                'no placement call otherwise': implies(not named, len(calls) == 0)}


@contract('CircuitCalculator.SimpleSimulation.schematic.apply_position', props=['C15'])
class place_after:
    frame = False

    def inputs(g):
        return dict(has_origin=g.bool('has_origin'))

    def call(f, has_origin):
        r, o = Recorder(), Recorder()
        out = f(r, o if has_origin else None)
        return (out is r, r.calls)

    def ensures(result, has_origin):
        same, calls = result
        return {'returns the element': same, 'placed at the end of the named element': calls == ([('at', 'END-POINT')] if has_origin else [])}
