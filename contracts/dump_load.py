"""Contracts for CircuitCalculator/dump_load.py and Circuit/dump_load.py (DESIGN C17)."""
import numpy as np
from pyvc.spec import contract, eq, implies, iff, raised
from CircuitCalculator import dump_load as dl
from CircuitCalculator.Circuit import dump_load as cdl
from CircuitCalculator.Circuit import components as ccp
from contracts.components import CTORS

P = ['C17']


@contract('CircuitCalculator.dump_load.undictify_complex_values', props=P)
class undictify_flat:
    frame = False       # documented to convert the given dictionary in place and return it

    def inputs(g):
        return dict(data={'a': {'real': g.real('re'), 'imag': g.real('im')}, 'b': {'abs': g.real('abs', lo=0), 'phase': g.real('ph')},
                          'c': {'phase_deg': g.real('phd'), 'abs': g.real('abs2', lo=0)}, 'd': g.real('d'), 'e': 'text',
                          'f': {'real': g.real('x'), 'other': g.real('y')}},
                    re=g.real('re'), im=g.real('im'), ab=g.real('abs'), ph=g.real('ph'), ab2=g.real('abs2'), phd=g.real('phd'), d=g.real('d'),
                    x=g.real('x'), y=g.real('y'))

    def call(f, data, **_):
        return f(data)

    def ensures(result, data, re, im, ab, ph, ab2, phd, d, x, y):
        return {
            'cartesian': eq(result['a'], complex(re, im)),
            'polar radians': eq(result['b'], ab * complex(np.cos(ph), np.sin(ph))),
            'polar degrees': eq(result['c'], ab2 * complex(np.cos(phd * np.pi / 180), np.sin(phd * np.pi / 180))),
            'other leaves untouched': eq(result['d'], d) and result['e'] == 'text' and eq(result['f'], {'real': x, 'other': y}),
            'same keys': list(result.keys()) == ['a', 'b', 'c', 'd', 'e', 'f'],
        }


@contract('CircuitCalculator.dump_load.undictify_complex_values', props=P + ['C19'])
class undictify_negative_abs:
    total = True
    frame = False

    def inputs(g):
        return dict(a=g.real('abs'), ph=g.real('ph'), deg=g.bool('deg'))

    def call(f, a, ph, deg):
        return f({'b': {'abs': a, 'phase_deg': ph}} if deg else {'b': {'abs': a, 'phase': ph}})

    def ensures(result, a, ph, deg):
        return {'negative magnitude rejected': iff(raised(result), a < 0),
                'typed': implies(raised(result), raised(result, ValueError))}


def tree(g):
    """A document with complex leaves at depth 1, 2 and inside a list of dictionaries."""
    return {'top': g.complex('z0'), 'n': g.real('n'), 'name': 'x',
            'inner': {'z': g.complex('z1'), 'deeper': {'z': g.complex('z2'), 'k': g.real('k')}},
            'items': [{'z': g.complex('z3')}, {'v': g.real('v'), 'sub': {'z': g.complex('z4')}}]}


@contract('CircuitCalculator.dump_load.dictify_all_complex_values', props=P, bounded='documents of nesting depth 3 with one list of dictionaries')
class round_trip_in_memory:
    frame = False

    def inputs(g):
        return dict(a=tree(g), b=tree(g))

    def call(f, a, b):
        return dl.undictify_all_complex_values(f(a))

    def ensures(result, a, b):
        return {'undictify_all(dictify_all(x)) == x': eq(result, b)}


@contract('CircuitCalculator.dump_load.dictify_all_complex_values', props=P, bounded='one list of two complex numbers')
class round_trip_list_of_complex:
    """Complex numbers that are direct elements of a list (known finding KF-C17-1 on the pinned tree)."""
    frame = False

    def inputs(g):
        return dict(a={'zs': [g.complex('z0'), g.complex('z1')]}, b={'zs': [g.complex('z0'), g.complex('z1')]})

    def call(f, a, b):
        return dl.deserialize(dl.serialize(a, 'json'), 'json')

    def ensures(result, a, b):
        return {'deserialize(serialize(x)) == x': eq(result, b)}


def make_text_round_trip(fmt):
    @contract('CircuitCalculator.dump_load.serialize', props=P, name='round_trip_' + fmt, search='wide',
              bounded='documents of nesting depth 3 with one list of dictionaries; json/yaml follow their assumed contract (DESIGN sec. 4)')
    class _c:
        frame = False

        def inputs(g):
            return dict(a=tree(g), b=tree(g))

        def call(f, a, b):
            return dl.deserialize(f(a, fmt), fmt)

        def ensures(result, a, b):
            return {'deserialize(serialize(x)) == x': eq(result, b)}
    return _c


make_text_round_trip('json')
make_text_round_trip('yaml')
make_text_round_trip('yml')


@contract('CircuitCalculator.dump_load.serialize', props=P + ['C19'], search='wide')
class unknown_format:
    total = True

    def inputs(g):
        return dict(fmt=g.label('fmt'))

    def call(f, fmt):
        try:
            f({'a': 1}, fmt)
        except ValueError:
            s_err = True
        else:
            s_err = False
        known_fmt = fmt == 'json' or fmt == 'yaml' or fmt == 'yml'
        text = dl.serialize({'a': 1}, fmt if known_fmt else 'json')
        try:
            dl.deserialize(text, fmt)
        except ValueError:
            d_err = True
        except Exception:
            d_err = False
        else:
            d_err = False
        return (s_err, d_err)

    def ensures(result, fmt):
        known = fmt == 'json' or fmt == 'yaml' or fmt == 'yml'
        return {'serialize rejects unknown formats': iff(result[0], not known), 'deserialize rejects unknown formats': iff(result[1], not known)}


# ---- Circuit/dump_load.generate_component: the ten documented kinds


LOADABLE = ['resistor', 'conductance', 'impedance', 'admittance', 'dc_voltage_source', 'ac_voltage_source', 'complex_voltage_source',
            'dc_current_source', 'ac_current_source', 'complex_current_source']


def make_generate(kind):
    tag, params, value = CTORS[kind]

    @contract('CircuitCalculator.Circuit.dump_load.generate_component', props=P + ['C19', 'C20'], name='generate_' + kind)
    class _c:
        total = True

        def inputs(g):
            v = {}
            for p, k in params.items():
                v[p] = g.complex(p) if k == 'complex' else g.real(p)
            return dict(component={'type': kind, 'id': g.label('id'), 'nodes': [g.label('n1'), g.label('n2')], 'value': v})

        def ensures(result, component):
            v = component['value']
            bad = any([v[p] < 0 for p in params if p in ('R', 'G', 'C', 'L', 'w', 'P', 'V_ref')])
            return {
                'negative values rejected': iff(raised(result), bad),
                'kind, id, terminals, value as written': implies(not raised(result), lambda: result.type == tag and result.id == component['id']
                                                                   and eq(list(result.nodes), component['nodes'])
                                                                   and eq(result.value, value(id=component['id'], nodes=component['nodes'], **v))),
            }
    return _c


for _k in LOADABLE:
    make_generate(_k)


@contract('CircuitCalculator.Circuit.dump_load.generate_component', props=P + ['C19'])
class generate_malformed:
    total = True

    def inputs(g):
        c = {'type': 'resistor', 'id': g.label('id'), 'nodes': [g.label('n1'), g.label('n2')], 'value': {'R': g.real('R', lo=0)}}
        fault = g.choice('fault', ['id', 'value', 'type', 'nodes', 'unknown type', 'odd value'])
        if fault == 'unknown type':
            c['type'] = 'flux_capacitor'
        elif fault == 'odd value':
            c['value'] = {'Q': g.real('Q')}
        else:
            del c[fault]
        return dict(component=c, fault=fault)

    def call(f, component, fault):
        return f(component)

    def ensures(result, component, fault):
        return {
            'rejected': raised(result),
            'missing id': implies(fault == 'id', raised(result, cdl.UnidentifiedComponent)),
            'missing field': implies(fault in ('value', 'type', 'nodes', 'odd value'), raised(result, cdl.IncorrectComponentInformation)),
            'unknown type': implies(fault == 'unknown type', raised(result, cdl.UnknownCircuitComponent)),
        }


@contract('CircuitCalculator.Circuit.dump_load.circuit_component_translators', props=P, no_xcheck=True)
class generate_table:
    def inputs(g):
        return dict()

    def call(f):
        return f

    def ensures(result):
        out = {}
        for k in LOADABLE:
            out[k] = k in result and result[k] is getattr(ccp, k)
        out['no other keys'] = len(result) == len(LOADABLE)
        return out


@contract('CircuitCalculator.Circuit.dump_load.undictify_circuit', props=P + ['C20'], bounded='descriptions with two components')
class undictify_circuit_two:
    def inputs(g):
        d = {'components': [
            {'type': 'resistor', 'id': g.label('id1'), 'nodes': [g.label('a'), g.label('b')], 'value': {'R': g.real('R', lo=0)}},
            {'type': 'complex_voltage_source', 'id': g.label('id2'), 'nodes': [g.label('c'), g.label('d')], 'value': {'V': g.complex('V'), 'Z': g.complex('Z')}}]}
        return dict(circuit=d)

    def requires(circuit):
        return circuit['components'][0]['id'] != circuit['components'][1]['id']

    def call(f, circuit):
        return (f(circuit), f(circuit))

    def ensures(result, circuit):
        c1, c2 = circuit['components']
        r = result[0].components
        return {
            'order and ids': len(r) == 2 and r[0].id == c1['id'] and r[1].id == c2['id'],
            'values': eq(r[0].value, {'R': c1['value']['R']}) and eq(r[1].value['V_real'], c2['value']['V'].real) and eq(r[1].value['X'], c2['value']['Z'].imag),
            'loading twice gives equal results': eq(result[0].components, result[1].components) and result[0].ground_node == result[1].ground_node,
        }
