"""Contracts for Circuit/solution.py (DC, complex) and Network/NodalAnalysis/solution.py (DESIGN C02 item 3, C05).

The solver is a parameter of the solution classes; the contracts pass a stub solver that records the network it
receives and returns arbitrary (symbolic) phasors, so the clauses hold for every network solution whatsoever."""
import numpy as np
from pyvc.spec import contract, eq, implies, iff, raised, is_real, ge
from CircuitCalculator.Circuit import components as ccp
from CircuitCalculator.Circuit.circuit import Circuit, transform_circuit
from CircuitCalculator.Circuit import solution as sol
from CircuitCalculator.Network.NodalAnalysis.solution import NodalAnalysisSolution
from CircuitCalculator.Network.network import Network, Branch
from CircuitCalculator.Network import elements as elm


class StubSolution:
    def __init__(self, v, i, phi):
        self.v, self.i, self.phi = v, i, phi

    def get_voltage(self, id):
        return self.v

    def get_current(self, id):
        return self.i

    def get_potential(self, id):
        return self.phi

    def get_power(self, id):
        return self.v * self.i.conjugate()


def stub_solver(v, i, phi, seen):
    def solver(network):
        seen.append(network)
        return StubSolution(v, i, phi)
    return solver


def tiny_circuit(R):
    return Circuit([ccp.resistor('R1', ('a', '0'), R), ccp.dc_voltage_source('V1', ('a', '0'), V=1), ccp.ground(nodes=('0',))])


@contract('CircuitCalculator.Circuit.solution.ComplexSolution', props=['C02', 'C05'])
class complex_solution:
    def inputs(g):
        return dict(R=g.pos('R'), w=g.real('w', lo=0), peak=g.bool('peak'), v=g.complex('v'), i=g.complex('i'), phi=g.complex('phi'))

    def call(f, R, w, peak, v, i, phi):
        seen = []
        c = tiny_circuit(R)
        s = f(circuit=c, solver=stub_solver(v, i, phi, seen), w=w, peak_values=peak)
        return (s.get_voltage('R1'), s.get_current('R1'), s.get_potential('a'), s.get_power('R1'), seen, transform_circuit(c, w))

    def ensures(result, R, w, peak, v, i, phi):
        V, I, PHI, P, seen, expected_network = result
        k = 1 if peak else np.sqrt(2)
        return {
            'solver called once on the network of this frequency': len(seen) == 1 and eq(seen[0], expected_network),
            'voltage: peak phasor, or peak/sqrt2 for RMS': eq(V * k, v),
            'current: peak phasor, or peak/sqrt2 for RMS': eq(I * k, i),
            'potential: peak phasor, or peak/sqrt2 for RMS': eq(PHI * k, phi),
            'power: V*conj(I) for RMS, half of that for peak': eq(P, V * np.conj(I) / 2 if peak else V * np.conj(I)),
        }


@contract('CircuitCalculator.Circuit.solution.DCSolution', props=['C02', 'C05'])
class dc_solution:
    def inputs(g):
        return dict(R=g.pos('R'), v=g.complex('v'), i=g.complex('i'), phi=g.complex('phi'))

    def call(f, R, v, i, phi):
        seen = []
        c = tiny_circuit(R)
        s = f(circuit=c, solver=stub_solver(v, i, phi, seen))
        return (s.get_voltage('R1'), s.get_current('R1'), s.get_potential('a'), s.get_power('R1'), seen, transform_circuit(c, 0))

    def ensures(result, R, v, i, phi):
        V, I, PHI, P, seen, expected_network = result
        return {
            'solver called once on the w = 0 network': len(seen) == 1 and eq(seen[0], expected_network),
            'voltage = real part of the w=0 phasor': eq(V, v.real),
            'current = real part': eq(I, i.real),
            'potential = real part': eq(PHI, phi.real),
            'power = V*I': eq(P, V * I),
        }


# ---- Network level: voltage is the potential difference, power is v*conj(i)


class StubNodal(NodalAnalysisSolution):
    def get_potential(self, node_id):
        return self.potentials[node_id]

    def get_current(self, branch_id):
        return self.current


@contract('CircuitCalculator.Network.NodalAnalysis.solution.NodalAnalysisSolution.get_voltage', props=['C01', 'C05'])
class nodal_voltage_power:
    def inputs(g):
        return dict(n1=g.label('n1'), n2=g.label('n2'), name=g.label('name'), Z=g.complex('Z'), p1=g.complex('p1'), p2=g.complex('p2'), i=g.complex('i'))

    def requires(n1, n2, name, Z, p1, p2, i):
        return n1 != n2

    def call(f, n1, n2, name, Z, p1, p2, i):
        net = Network([Branch(n1, n2, elm.impedance(name, Z))], node_zero_label=n2)
        s = StubNodal(net)
        s.potentials = {n1: p1, n2: p2}
        s.current = i
        return (s.get_voltage(name), s.get_power(name))

    def ensures(result, n1, n2, name, Z, p1, p2, i):
        v, p = result
        return {'v = phi(node1) - phi(node2)': eq(v, p1 - p2), 'p = v*conj(i)': eq(p, (p1 - p2) * np.conj(i))}


# ---- sign of power per element law (loop-free NRA lemmas over the element laws; C05)


from pyvc.spec import lemma


@lemma(props=['C05'])
class resistor_power_sign:
    """p = v*conj(i) with v = R*i, R > 0  =>  p real, p >= 0, p = R*|i|^2."""
    def inputs(g):
        return dict(R=g.pos('R'), i=g.complex('i'))

    def call(f, R, i):
        return (R * i) * np.conj(i)

    def ensures(result, R, i):
        return {'real': is_real(result), 'non-negative': ge(result.real, 0), '= R*|i|^2': eq(result, R * (i.real**2 + i.imag**2))}


@lemma(props=['C05'])
class inductor_power_sign:
    def inputs(g):
        return dict(L=g.pos('L'), w=g.real('w', lo=0), i=g.complex('i'))

    def call(f, L, w, i):
        return (1j * w * L * i) * np.conj(i)

    def ensures(result, L, w, i):
        return {'purely reactive': eq(result.real, 0), 'Q >= 0': ge(result.imag, 0)}


@lemma(props=['C05'])
class capacitor_power_sign:
    def inputs(g):
        return dict(C=g.pos('C'), w=g.real('w', lo=0), v=g.complex('v'))

    def call(f, C, w, v):
        return v * np.conj(1j * w * C * v)

    def ensures(result, C, w, v):
        return {'purely reactive': eq(result.real, 0), 'Q <= 0': ge(0, result.imag)}
