import numpy as np
from pyvc.spec import contract, eq, implies
from CircuitCalculator.Circuit import components as ccp
from CircuitCalculator.Circuit import transformers as trf
from CircuitCalculator.Network import elements as elm


@contract('CircuitCalculator.Circuit.transformers.capacitor', props=['C07', 'C02'])
class capacitor:
    def inputs(g):
        c = ccp.Component(type='capacitor', id=g.label('id'), nodes=(g.label('n1'), g.label('n2')), value={'C': g.real('C')})
        return dict(capacitor=c, w=g.real('w'), w_res=g.real('w_res'))

    def requires(capacitor, w, w_res):
        return capacitor.value['C'] >= 0 and w >= 0

    def call(f, capacitor, w, w_res):
        return f(capacitor, w, w_res)

    def ensures(result, capacitor, w, w_res):
        e = result.element
        return {
            'nodes': result.node1 == capacitor.nodes[0] and result.node2 == capacitor.nodes[1],
            'id': e.name == capacitor.id,
            'Y': eq(e.Y, 1j*w*capacitor.value['C']),
            'I': eq(e.I, 0),
        }


@contract('CircuitCalculator.Circuit.transformers.ac_voltage_source', props=['C07', 'C02'])
class ac_voltage_source:
    def inputs(g):
        c = ccp.Component(type='ac_voltage_source', id=g.label('id'), nodes=(g.label('n1'), g.label('n2')),
                          value={'V': g.real('V'), 'R': g.real('R'), 'w': g.real('ws'), 'phi': g.real('phi')})
        return dict(src=c, w=g.real('w'), w_res=g.real('w_res'))

    def requires(src, w, w_res):
        return src.value['R'] >= 0 and w >= 0 and src.value['w'] >= 0 and w_res >= 0

    def call(f, src, w, w_res):
        return f(src, w, w_res)

    def ensures(result, src, w, w_res):
        e = result.element
        on = abs(w - src.value['w']) <= w_res
        return {
            'nodes': result.node1 == src.nodes[0] and result.node2 == src.nodes[1],
            'id': e.name == src.id,
            'on.V': implies(on, eq(e.V, src.value['V']*complex(np.cos(src.value['phi']), np.sin(src.value['phi'])))),
            'on.Z': implies(on, eq(e.Z, src.value['R'])),
            'off.short': implies(not on, eq(e.V, 0) and eq(e.Z, 0)),
        }
