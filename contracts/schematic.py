"""Contracts for the schematic layer (DESIGN C13): symbol -> component translators, the translator table, DiagramTranslator.

Elements are built with the real constructors of SimpleCircuit/Elements.py on top of the schemdraw interface model
(pyvc/schemdraw_model.py; natively: real schemdraw elements).  A source's polarity runs from its start to its end
terminal unless it is marked reversed; the value is the one given to the constructor."""
import numpy as np
from pyvc.spec import contract, eq, implies, iff, raised
from CircuitCalculator.SimpleCircuit import Elements as elm
from CircuitCalculator.SimpleCircuit import CircuitComponentTranslators as tr
from CircuitCalculator.Circuit import components as ccp

P = ['C13']


def nodes_of(rev, n1, n2):
    return (n2, n1) if rev else (n1, n2)


def symbol(fname, cls, params, expected, reversible=True, props=P):
    """params: {ctor keyword: 'real'|'complex'|'bool'};  expected(name, nodes, **values) -> Component."""
    @contract('CircuitCalculator.SimpleCircuit.CircuitComponentTranslators.' + fname, props=props, name=fname)
    class _c:
        def inputs(g):
            vals = {}
            for k, t in params.items():
                vals[k] = g.complex(k) if t == 'complex' else (g.bool(k) if t == 'bool' else (g.pos(k) if t == 'pos' else g.real(k)))
            return dict(name=g.label('name'), n1=g.label('n1'), n2=g.label('n2'), rev=g.bool('rev') if reversible else False, vals=vals)

        def call(f, name, n1, n2, rev, vals):
            kw = dict(vals)
            if reversible:
                kw['reverse'] = rev
            return f(cls(name=name, **kw), (n1, n2))

        def ensures(result, name, n1, n2, rev, vals):
            return {'component as drawn': eq(result, expected(name, nodes_of(rev, n1, n2), **vals))}
    return _c


symbol('resistor_translator', elm.Resistor, {'R': 'pos'}, lambda name, nodes, R: ccp.resistor(name, (nodes[0], nodes[1]) if True else nodes, R), reversible=False)
symbol('conductance_translator', elm.Conductance, {'G': 'pos'}, lambda name, nodes, G: ccp.conductance(name, nodes, G), reversible=False)
symbol('impedance_translator', elm.Impedance, {'Z': 'complex'}, lambda name, nodes, Z: ccp.impedance(name, nodes, Z), reversible=False)
symbol('capacitor_translator', elm.Capacitor, {'C': 'pos'}, lambda name, nodes, C: ccp.capacitor(name, nodes, C), reversible=False)
symbol('inductance_translator', elm.Inductance, {'L': 'pos'}, lambda name, nodes, L: ccp.inductance(name, nodes, L), reversible=False)
symbol('lamp_translator', elm.Lamp, {'V_ref': 'pos', 'P_ref': 'pos'}, lambda name, nodes, V_ref, P_ref: ccp.lamp(name, nodes, P=P_ref, V_ref=V_ref), reversible=False)
symbol('dc_voltage_source_translator', elm.VoltageSource, {'V': 'real'}, lambda name, nodes, V: ccp.dc_voltage_source(name, nodes, V=V))
symbol('complex_voltage_source_translator', elm.ComplexVoltageSource, {'V': 'complex'}, lambda name, nodes, V: ccp.complex_voltage_source(name, nodes, V=V))
symbol('dc_current_source_translator', elm.CurrentSource, {'I': 'real'}, lambda name, nodes, I: ccp.dc_current_source(name, nodes, I=I))
symbol('complex_current_source_translator', elm.ComplexCurrentSource, {'I': 'complex'}, lambda name, nodes, I: ccp.complex_current_source(name, nodes, I=I))


def phase(phi, sin, deg):
    """sine reference means phi - pi/2; degrees are converted - both exactly once."""
    p = phi - np.pi / 2 if sin else phi
    return p * np.pi / 180 if deg else p


AC = {'w': 'pos', 'phi': 'real', 'sin': 'bool', 'deg': 'bool'}
symbol('ac_voltage_source_translator', elm.ACVoltageSource, dict(V='real', **AC),
       lambda name, nodes, V, w, phi, sin, deg: ccp.ac_voltage_source(name, nodes, V=V, w=w, phi=phase(phi, sin, deg)))
symbol('ac_current_source_translator', elm.ACCurrentSource, dict(I='real', **AC),
       lambda name, nodes, I, w, phi, sin, deg: ccp.ac_current_source(name, nodes, I=I, w=w, phi=phase(phi, sin, deg)))
PER = {'w': 'pos', 'phi': 'real', 'deg': 'bool'}
for _kind, _wave in (('rect', 'rect'), ('tri', 'tri'), ('saw', 'saw')):
    _vcls = {'rect': elm.RectVoltageSource, 'tri': elm.TriangleVoltageSource, 'saw': elm.SawtoothVoltageSource}[_kind]
    _ccls = {'rect': elm.RectCurrentSource, 'tri': elm.TriangleCurrentSource, 'saw': elm.SawtoothCurrentSource}[_kind]
    symbol(_kind + '_voltage_source_translator', _vcls, dict(V='real', **PER),
           lambda name, nodes, V, w, phi, deg, _wave=_wave: ccp.periodic_voltage_source(name, nodes, _wave, V=V, w=w, phi=phase(phi, False, deg)))
    symbol(_kind + '_current_source_translator', _ccls, dict(I='real', **PER),
           lambda name, nodes, I, w, phi, deg, _wave=_wave: ccp.periodic_current_source(name, nodes, _wave, I=I, w=w, phi=phase(phi, False, deg)))
symbol('linear_current_source_translator', elm.RealCurrentSource, {'I': 'real', 'R': 'pos'},
       lambda name, nodes, I, R: ccp.dc_current_source(name, nodes, I=I, G=1 / R), reversible=False)
symbol('linear_voltage_source_translator', elm.RealVoltageSource, {'V': 'real', 'R': 'pos'},
       lambda name, nodes, V, R: ccp.dc_voltage_source(name, nodes, V=V, R=R), reversible=False)


@contract('CircuitCalculator.SimpleCircuit.CircuitComponentTranslators.short_circuit_translator', props=P)
class short_circuit_translator:
    def inputs(g):
        return dict(name=g.label('name'), n1=g.label('n1'), n2=g.label('n2'))

    def call(f, name, n1, n2):
        return f(elm.LabeledLine(name=name), (n1, n2))

    def ensures(result, name, n1, n2):
        return {'labelled wire is a named short circuit': eq(result, ccp.short_circuit(name, (n1, n2)))}


@contract('CircuitCalculator.SimpleCircuit.CircuitComponentTranslators.ground_translator', props=P)
class ground_translator:
    def inputs(g):
        return dict(name=g.label('name'), n1=g.label('n1'))

    def call(f, name, n1):
        return f(elm.Ground(name=name), (n1,))

    def ensures(result, name, n1):
        return {'ground component on its node': eq(result, ccp.ground(id=name, nodes=(n1,)))}


@contract('CircuitCalculator.SimpleCircuit.CircuitComponentTranslators.switch_translator', props=P)
class switch_translator:
    def inputs(g):
        return dict(name=g.label('name'), n1=g.label('n1'), n2=g.label('n2'), closed=g.bool('closed'))

    def call(f, name, n1, n2, closed):
        return f(elm.Switch(name=name, state=elm.SwitchState.CLOSED if closed else elm.SwitchState.OPEN), (n1, n2))

    def ensures(result, name, n1, n2, closed):
        return {'wiring': result.type == 'resistor' and result.id == name and eq(result.nodes, (n1, n2)),
                'open switch is an infinite resistance': implies(not closed, not np.isfinite(result.value['R'])),
                'closed switch is (nearly) a short': implies(closed, lambda: result.value['R'] <= 1e-9)}


@contract('CircuitCalculator.SimpleCircuit.CircuitComponentTranslators.switch_translator', props=P, name='switch_operated_after_construction')
class switch_operated:
    """The drawn state of a switch that is opened / closed / toggled AFTER construction is the state that is translated."""
    def inputs(g):
        return dict(name=g.label('name'), n1=g.label('n1'), n2=g.label('n2'), closed=g.bool('closed'), op=g.choice('op', ['open', 'close', 'toggle', 'toggle twice']))

    def call(f, name, n1, n2, closed, op):
        sw = elm.Switch(name=name, state=elm.SwitchState.CLOSED if closed else elm.SwitchState.OPEN)
        if op == 'open':
            sw.open()
        elif op == 'close':
            sw.close()
        elif op == 'toggle':
            sw.toggle()
        else:
            sw.toggle()
            sw.toggle()
        return (f(sw, (n1, n2)), sw.state)

    def ensures(result, name, n1, n2, closed, op):
        comp, state = result
        expect_closed = False if op == 'open' else (True if op == 'close' else ((not closed) if op == 'toggle' else closed))
        return {'state after the operation': iff(state == elm.SwitchState.CLOSED, expect_closed) and iff(state == elm.SwitchState.OPEN, not expect_closed),
                'translated as drawn: open is an infinite resistance': implies(not expect_closed, lambda: not np.isfinite(comp.value['R'])),
                'translated as drawn: closed is (nearly) a short': implies(expect_closed, lambda: comp.value['R'] <= 1e-9),
                'wiring': comp.type == 'resistor' and comp.id == name and eq(comp.nodes, (n1, n2))}


TABLE = {
    'Resistor': 'resistor_translator', 'Impedance': 'impedance_translator', 'Conductance': 'conductance_translator',
    'VoltageSource': 'dc_voltage_source_translator', 'ComplexVoltageSource': 'complex_voltage_source_translator',
    'CurrentSource': 'dc_current_source_translator', 'ComplexCurrentSource': 'complex_current_source_translator',
    'ACVoltageSource': 'ac_voltage_source_translator', 'ACCurrentSource': 'ac_current_source_translator',
    'RectVoltageSource': 'rect_voltage_source_translator', 'RectCurrentSource': 'rect_current_source_translator',
    'TriangleVoltageSource': 'tri_voltage_source_translator', 'TriangleCurrentSource': 'tri_current_source_translator',
    'SawtoothVoltageSource': 'saw_voltage_source_translator', 'SawtoothCurrentSource': 'saw_current_source_translator',
    'Capacitor': 'capacitor_translator', 'Inductance': 'inductance_translator', 'Lamp': 'lamp_translator', 'Ground': 'ground_translator',
    'Line': 'none_translator', 'LabeledLine': 'short_circuit_translator', 'Node': 'none_translator', 'LabelNode': 'none_translator',
    'RealCurrentSource': 'linear_current_source_translator', 'RealVoltageSource': 'linear_voltage_source_translator', 'Switch': 'switch_translator',
    'VoltageLabel': 'none_translator', 'CurrentLabel': 'none_translator', 'PowerLabel': 'none_translator', 'Element': 'none_translator',
}


@contract('CircuitCalculator.SimpleCircuit.CircuitComponentTranslators.circuit_translator_map', props=P, no_xcheck=True)
class translator_table:
    def inputs(g):
        return dict()

    def call(f):
        return f

    def ensures(result):
        out = {}
        for cname, fname in TABLE.items():
            out[cname] = getattr(elm, cname) in result and result[getattr(elm, cname)] is getattr(tr, fname)
        out['no other keys'] = len(result) == len(TABLE)
        return out
