"""Contracts for CircuitCalculator/SignalProcessing/periodic_functions.py (DESIGN sec. 8 / C08 (a)-(d)).

The spec table below is the Fourier series of the waveform's own time function (derivation: lemmas/Fourier.lean for the
canonical pieces; for cos/sin/const it is the definition):

    f(t) = offset + sum_{n>=1} amplitude(n) * cos(n*w0*t + phase(n))

    const : amplitude(0) = A, nothing else                       (its time function is the constant A)
    cos   : amplitude(1) = A, phase(1) = phi
    sin   : amplitude(1) = A, phase(1) = phi - pi/2
    rect  : odd n: 4A/(n*pi),   phase n*phi - pi/2 ; even n>0: 0
    tri   : odd n: 8A/(n*pi)^2, phase n*phi        ; even n>0: 0
    saw   : n>=1: -2A/(n*pi),   phase n*phi - pi/2
    amplitude(0) = offset for all but const.
"""
import numpy as np
from pyvc.spec import contract, eq, implies, iff, raised
from CircuitCalculator.SignalProcessing import periodic_functions as pf

HARMONICS = {
    'const': pf.ConstFunctionHarmonics, 'cos': pf.CosFunctionHarmonics, 'sin': pf.SinFunctionHarmonics,
    'rect': pf.RectFunctionHarmonics, 'tri': pf.TriFunctionHarmonics, 'saw': pf.SawFunctionHarmonics,
}
WAVEFORMS = {
    'const': pf.ConstantFunction, 'cos': pf.CosFunction, 'sin': pf.SinFunction,
    'rect': pf.RectFunction, 'tri': pf.TriFunction, 'saw': pf.SawFunction,
}


def spec_amplitude(kind, n, A, phi, off):
    """n >= 0 (integer valued)."""
    odd = n % 2 == 1
    if kind == 'const':
        return A if n == 0 else 0
    if n == 0:
        return off
    if kind == 'cos' or kind == 'sin':
        return A if n == 1 else 0
    if kind == 'rect':
        return 4 * A / (n * np.pi) if odd else 0
    if kind == 'tri':
        return 8 * A / (n * n * np.pi * np.pi) if odd else 0
    if kind == 'saw':
        return -2 * A / (n * np.pi)


def spec_phase(kind, n, A, phi, off):
    odd = n % 2 == 1
    if kind == 'const':
        return 0
    if kind == 'cos':
        return phi if n == 1 else 0
    if kind == 'sin':
        return phi - np.pi / 2 if n == 1 else 0
    if kind == 'rect':
        return n * phi - np.pi / 2 if odd else 0
    if kind == 'tri':
        return n * phi if odd else 0
    if kind == 'saw':
        return n * phi - np.pi / 2 if n != 0 else 0


def make_harmonics(kind):
    cls = HARMONICS[kind]

    @contract('CircuitCalculator.SignalProcessing.periodic_functions.' + cls.__name__ + '._amplitude_coefficient', props=['C08', 'C07'],
              name=kind + '_amplitude_coefficient')
    class _amp:
        def inputs(g):
            return dict(A=g.real('A'), phi=g.real('phi'), off=g.real('off'), n=g.int('n', lo=0))

        def call(f, A, phi, off, n):
            return cls(amplitude0=A, phase0=phi, offset0=off)._amplitude_coefficient(n)

        def ensures(result, A, phi, off, n):
            return {'closed form': eq(result, spec_amplitude(kind, n, A, phi, off))}

    @contract('CircuitCalculator.SignalProcessing.periodic_functions.' + cls.__name__ + '._phase_coefficient', props=['C08', 'C07'],
              name=kind + '_phase_coefficient')
    class _ph:
        def inputs(g):
            return dict(A=g.real('A'), phi=g.real('phi'), off=g.real('off'), n=g.int('n', lo=0))

        def call(f, A, phi, off, n):
            return cls(amplitude0=A, phase0=phi, offset0=off)._phase_coefficient(n)

        def ensures(result, A, phi, off, n):
            return {'closed form': eq(result, spec_phase(kind, n, A, phi, off))}

    @contract('CircuitCalculator.SignalProcessing.periodic_functions.AbstractHarmonicCoefficients.amplitude', props=['C08', 'C07'],
              name=kind + '_amplitude')
    class _amplitude:
        def inputs(g):
            return dict(A=g.real('A'), phi=g.real('phi'), off=g.real('off'), n=g.int('n'))

        def call(f, A, phi, off, n):
            return cls(amplitude0=A, phase0=phi, offset0=off).amplitude(n)

        def ensures(result, A, phi, off, n):
            m = n if n >= 0 else -n
            return {'even in n': eq(result, spec_amplitude(kind, m, A, phi, off))}

    @contract('CircuitCalculator.SignalProcessing.periodic_functions.AbstractHarmonicCoefficients.phase', props=['C08', 'C07'],
              name=kind + '_phase')
    class _phase:
        def inputs(g):
            return dict(A=g.real('A'), phi=g.real('phi'), off=g.real('off'), n=g.int('n'))

        def call(f, A, phi, off, n):
            return cls(amplitude0=A, phase0=phi, offset0=off).phase(n)

        def ensures(result, A, phi, off, n):
            return {'odd in n': eq(result, spec_phase(kind, n, A, phi, off) if n >= 0 else -spec_phase(kind, -n, A, phi, off))}

    @contract('CircuitCalculator.SignalProcessing.periodic_functions.AbstractHarmonicCoefficients.a', props=['C08'], name=kind + '_abc')
    class _abc:
        def inputs(g):
            return dict(A=g.real('A'), phi=g.real('phi'), off=g.real('off'), n=g.int('n', lo=1))

        def call(f, A, phi, off, n):
            h = cls(amplitude0=A, phase0=phi, offset0=off)
            return (h.a(n), h.b(n), h.c(n), h.c(-n))

        def ensures(result, A, phi, off, n):
            a, b, c, cm = result
            amp = spec_amplitude(kind, n, A, phi, off)
            ph = spec_phase(kind, n, A, phi, off)
            return {
                'a = amp*cos(phase)': eq(a, amp * np.cos(ph)),
                'b = -amp*sin(phase)': eq(b, -amp * np.sin(ph)),
                'c = (a - j b)/2': eq(c, (a - 1j * b) / 2),
                'c(-n) = conj c(n)': eq(cm, np.conj(c)),
            }
    return _amp


for _k in HARMONICS:
    make_harmonics(_k)


# ---- lookup and the waveform -> harmonics table (finite: one contract per name)


def make_lookup(kind):
    @contract('CircuitCalculator.SignalProcessing.periodic_functions.periodic_function', props=['C08', 'C07'], name=kind + '_lookup')
    class _lookup:
        def inputs(g):
            return dict(T=g.pos('T'), A=g.real('A'), phi=g.real('phi'), off=g.real('off'))

        def call(f, T, A, phi, off):
            wf = f(kind)(period=T, amplitude=A, phase=phi, offset=off)
            return (f(kind), wf, pf.fourier_series(wf))

        def ensures(result, T, A, phi, off):
            cls, wf, h = result
            return {
                'lookup by name returns that waveform': cls is WAVEFORMS[kind] and cls.wavetype == kind,
                'parameters stored': eq(wf.period, T) and eq(wf.amplitude, A) and eq(wf.phase, phi) and eq(wf.offset, off),
                'own harmonic class': type(h) is HARMONICS[kind],
                'parameters copied': eq(h.amplitude0, A) and eq(h.phase0, phi) and eq(h.offset0, off),
            }
    return _lookup


for _k in WAVEFORMS:
    make_lookup(_k)


@contract('CircuitCalculator.SignalProcessing.periodic_functions.periodic_function', props=['C08', 'C19'])
class lookup_unknown:
    total = True

    def inputs(g):
        return dict(wavetype=g.label('wavetype'))

    def ensures(result, wavetype):
        known = any([wavetype == k for k in WAVEFORMS])
        return {
            'unknown names are rejected': iff(raised(result), not known),
            'typed': implies(raised(result), raised(result, pf.UnknownWavetype)),
        }


@contract('CircuitCalculator.SignalProcessing.periodic_functions.fourier_series', props=['C08', 'C19'])
class fourier_series_unknown:
    total = True

    def inputs(g):
        return dict(x=g.real('x'))

    def call(f, x):
        return f(pf.ConstFunctionHarmonics(x, x, x))       # not a waveform

    def ensures(result, x):
        return {'rejected': raised(result, pf.TransformationError)}


# ---- time functions on the open pieces (break points excluded on purpose)
# PIECES[kind] = [(start, end, value(u, T, A, off))] with start/end as fractions of the period and u = (t + t0) mod T the position inside
# the period (t0 = phi*T/(2*pi)).  The SAME table is integrated, piece by piece, by the Fourier-integral lemma (pyvc/fourier_lemma.py).

PIECES = {
    'rect': [(0, 1 / 2, lambda u, T, A, off: A + off), (1 / 2, 1, lambda u, T, A, off: -A + off)],
    'tri': [(0, 1 / 2, lambda u, T, A, off: A * (1 - 4 * u / T) + off), (1 / 2, 1, lambda u, T, A, off: A * (-3 + 4 * u / T) + off)],
    'saw': [(0, 1, lambda u, T, A, off: A * (2 * u / T - 1) + off)],
}
PIECEWISE = {'rect': pf.RectFunction, 'tri': pf.TriFunction, 'saw': pf.SawFunction}


def _u(t, t0, T):
    s = t + t0
    return s - T * np.floor(s / T)


def make_time(kind):
    cls = PIECEWISE[kind]

    @contract('CircuitCalculator.SignalProcessing.periodic_functions.' + cls.__name__ + '.time_function', props=['C08'], name=kind + '_time')
    class _t:
        def inputs(g):
            return dict(T=g.pos('T'), A=g.real('A'), phi=g.real('phi'), off=g.real('off'), t=g.real('t'))

        def call(f, T, A, phi, off, t):
            return cls(T, A, phi, off).time_function(t)

        def ensures(result, T, A, phi, off, t):
            u = _u(t, phi * T / (2 * np.pi), T)
            out = {}
            for k, (lo, hi, value) in enumerate(PIECES[kind]):
                out['piece ' + str(k) + ' of the period'] = implies(lo * T < u and u < hi * T, eq(result, value(u, T, A, off)))
            return out
    return _t


for _k in PIECEWISE:
    make_time(_k)


@contract('CircuitCalculator.SignalProcessing.periodic_functions.CosFunction.time_function', props=['C08'])
class cos_time:
    def inputs(g):
        return dict(T=g.pos('T'), A=g.real('A'), phi=g.real('phi'), off=g.real('off'), t=g.real('t'))

    def call(f, T, A, phi, off, t):
        return pf.CosFunction(T, A, phi, off).time_function(t)

    def ensures(result, T, A, phi, off, t):
        return {'value': eq(result, A * np.cos(2 * np.pi / T * t + phi) + off)}


@contract('CircuitCalculator.SignalProcessing.periodic_functions.SinFunction.time_function', props=['C08'])
class sin_time:
    def inputs(g):
        return dict(T=g.pos('T'), A=g.real('A'), phi=g.real('phi'), off=g.real('off'), t=g.real('t'))

    def call(f, T, A, phi, off, t):
        return pf.SinFunction(T, A, phi, off).time_function(t)

    def ensures(result, T, A, phi, off, t):
        return {'value': eq(result, A * np.cos(2 * np.pi / T * t + phi - np.pi / 2) + off)}


@contract('CircuitCalculator.SignalProcessing.periodic_functions.ConstantFunction.time_function', props=['C08'])
class const_time:
    def inputs(g):
        return dict(A=g.real('A'), t=g.real('t'))

    def call(f, A, t):
        return pf.ConstantFunction(amplitude=A).time_function(np.array([t, t + 1]))

    def ensures(result, A, t):
        return {'constant': eq(result[0], A) and eq(result[1], A)}
