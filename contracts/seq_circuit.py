"""Circuits with an ARBITRARY number of components (sequence layer): construction invariants, lookup, and transform_circuit as
the order-preserving map of the translator table over the component list (the table entries themselves are verified for all
inputs in contracts/transformers.py)."""
from pyvc.spec import contract, eq, implies, iff, forall, exists, indices, raised
from CircuitCalculator.Circuit import circuit as cc
from CircuitCalculator.Circuit import components as ccp
from CircuitCalculator.Circuit.transformers import transformers
from CircuitCalculator.Network import network as nw


def any_component(g):
    kind = g.choice('kind', ['resistor', 'capacitor', 'ac_voltage_source', 'dc_current_source', 'ground'])
    id, n1, n2 = g.label('id'), g.label('n1'), g.label('n2')
    if kind == 'resistor':
        return ccp.Component(type='resistor', id=id, nodes=(n1, n2), value={'R': g.pos('R')})
    if kind == 'capacitor':
        return ccp.Component(type='capacitor', id=id, nodes=(n1, n2), value={'C': g.pos('C')})
    if kind == 'ac_voltage_source':
        return ccp.Component(type='ac_voltage_source', id=id, nodes=(n1, n2), value={'V': g.real('V'), 'R': g.pos('Ri'), 'w': g.pos('ws'), 'phi': g.real('phi')})
    if kind == 'dc_current_source':
        return ccp.Component(type='dc_current_source', id=id, nodes=(n1, n2), value={'I': g.real('I'), 'G': g.pos('Gi'), 'w': 0, 'phi': 0})
    return ccp.Component(type='ground', id=id, nodes=(n1,), value={})


def distinct_ids(cs):
    return forall(indices(cs), lambda i: forall(indices(cs), lambda j: implies(i != j, cs[i].id != cs[j].id)))


def grounds(cs):
    return [c for c in cs if c.type == 'ground']


def two_grounds(cs):
    return exists(indices(cs), lambda i: exists(indices(cs), lambda j: i != j and cs[i].type == 'ground' and cs[j].type == 'ground'))


@contract('CircuitCalculator.Circuit.circuit.Circuit', props=['C19', 'C07'], name='Circuit_invariants_any_length')
class circuit_invariants:
    total = True

    def inputs(g):
        return dict(components=g.list('c', any_component))

    def call(f, components):
        return f(components)

    def ensures(result, components):
        ok = distinct_ids(components) and not two_grounds(components)
        return {
            'constructed iff valid': iff(not raised(result), ok),
            'two grounds rejected': implies(two_grounds(components), raised(result, cc.MultipleGroundNodes)),
            'ambiguous ids rejected': implies(not two_grounds(components) and not distinct_ids(components), raised(result, cc.AmbiguousComponentID)),
            'ground node is the node of the ground component': implies(ok, lambda: forall(components, lambda c: implies(c.type == 'ground', lambda: result.ground_node == c.nodes[0]))),
            'without ground component: first terminal of the first component': implies(ok and len(components) > 0 and not exists(components, lambda c: c.type == 'ground'),
                                                                                      lambda: result.ground_node == components[0].nodes[0]),
            'empty circuit': implies(len(components) == 0, lambda: result.ground_node == ''),
            'components kept': implies(ok, lambda: eq(result.components, components)),
        }


@contract('CircuitCalculator.Circuit.circuit.Circuit.__getitem__', props=['C19'], name='Circuit_getitem_any_length')
class circuit_getitem:
    total = True

    def inputs(g):
        return dict(components=g.list('c', any_component), key=g.label('q'))

    def requires(components, key):
        return distinct_ids(components) and not two_grounds(components)

    def call(f, components, key):
        return f(cc.Circuit(components), key)

    def ensures(result, components, key):
        known = exists(components, lambda c: c.id == key)
        return {
            'unknown id raises': iff(not known, raised(result, ValueError)),
            'known id returns that component': implies(known, lambda: result.id == key and exists(components, lambda c: eq(c, result))),
        }


def transformable(c):
    return c.type in transformers.keys()


@contract('CircuitCalculator.Circuit.circuit.transform_circuit', props=['C07', 'C02'], name='transform_circuit_any_length')
class transform_circuit_all:
    """The network is the image of the component list under the translator table: every transformable component yields
    exactly the branch its translator produces (same identifier), nothing else appears, the ground node is the reference."""
    total = True

    def inputs(g):
        return dict(components=g.list('c', any_component), w=g.real('w', lo=0), w_resolution=g.pos('wres'))

    def requires(components, w, w_resolution):
        return distinct_ids(components) and not two_grounds(components)

    def call(f, components, w, w_resolution):
        return f(cc.Circuit(components), w, w_resolution)

    def ensures(result, components, w, w_resolution):
        def is_ground(x):
            """x is the circuit's ground node (C19/Circuit_invariants_any_length: node of the ground component, else first terminal)."""
            return exists(components, lambda c: c.type == 'ground' and c.nodes[0] == x) or \
                (not exists(components, lambda c: c.type == 'ground') and len(components) > 0 and components[0].nodes[0] == x)
        has_branch_at_ground = exists(components, lambda c: transformable(c) and (is_ground(c.nodes[0]) or is_ground(c.nodes[1])))
        none = not exists(components, lambda c: transformable(c))
        return {
            'fails only for a floating reference': iff(raised(result), not none and not has_branch_at_ground),
            'typed failure': implies(raised(result), raised(result, nw.FloatingGroundNode)),
            'reference node': implies(not raised(result) and len(components) > 0, lambda: is_ground(result.node_zero_label)),
            'every transformable component gives its branch': implies(not raised(result), lambda: forall(components, lambda c: implies(
                transformable(c), lambda: exists(result.branches, lambda b: eq(b, transformers[c.type](c, w, w_resolution)))))),
            'nothing else': implies(not raised(result), lambda: forall(result.branches, lambda b: exists(components, lambda c: transformable(c) and eq(b, transformers[c.type](c, w, w_resolution))))),
            'identifiers preserved': implies(not raised(result), lambda: forall(result.branches, lambda b: exists(components, lambda c: c.id == b.id))),
        }
