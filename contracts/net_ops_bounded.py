"""Bounded stand-ins for list-level operations of the Network and Circuit layers (C16, C19, C07, C06): fixed list
shapes / topologies with symbolic values and (where it matters) symbolic names.  Labelled bounded."""
import numpy as np
from pyvc.spec import contract, eq, implies, iff, raised, nonsingular
from CircuitCalculator.Network.network import Network, Branch, FloatingGroundNode, AmbiguousBranchIDs
from CircuitCalculator.Network import elements as elm
from CircuitCalculator.Network import transformers as trf
from CircuitCalculator.Network.NodalAnalysis.bias_point_analysis import nodal_analysis_bias_point_solver as solve
from CircuitCalculator.Network.NodalAnalysis.node_analysis import nodal_analysis_coefficient_matrix, open_circuit_impedance, element_impedance
from CircuitCalculator.Circuit import components as ccp
from CircuitCalculator.Circuit import circuit as cct
from CircuitCalculator.Circuit import transformers as ctr


# ---- C19: malformed networks / circuits are rejected wherever the fault occurs


@contract('CircuitCalculator.Network.network.Network.__post_init__', props=['C19', 'C01'], bounded='three branches on nodes a,b,c; ids and reference label symbolic')
class network_invariant:
    total = True

    def inputs(g):
        return dict(id1=g.label('id1'), id2=g.label('id2'), id3=g.label('id3'), ref=g.label('ref'), R=g.pos('R'))

    def call(f, id1, id2, id3, ref, R):
        return Network([Branch('a', 'b', elm.resistor(id1, R)), Branch('b', 'c', elm.resistor(id2, R)), Branch('c', 'a', elm.resistor(id3, R))], ref)

    def ensures(result, id1, id2, id3, ref, R):
        floating = not (ref == 'a' or ref == 'b' or ref == 'c')
        dup = id1 == id2 or id1 == id3 or id2 == id3
        return {
            'rejected iff floating reference or duplicate id': iff(raised(result), floating or dup),
            'floating reference': implies(floating, raised(result, FloatingGroundNode)),
            'duplicate ids': implies(dup and not floating, raised(result, AmbiguousBranchIDs)),
            'stored unaltered': implies(not raised(result), lambda: result.node_zero_label == ref and len(result.branches) == 3
                                        and result.branches[0].id == id1 and result.branches[1].id == id2 and result.branches[2].id == id3),
        }


@contract('CircuitCalculator.Network.network.Network.__getitem__', props=['C19', 'C01'], bounded='two branches')
class network_getitem:
    total = True

    def inputs(g):
        return dict(id1=g.label('id1'), id2=g.label('id2'), q=g.label('q'), R=g.pos('R'))

    def requires(id1, id2, q, R):
        return id1 != id2

    def call(f, id1, id2, q, R):
        return Network([Branch('a', 'b', elm.resistor(id1, R)), Branch('b', 'a', elm.resistor(id2, 2 * R))], 'a')[q]

    def ensures(result, id1, id2, q, R):
        return {'unknown id raises': iff(raised(result), q != id1 and q != id2),
                'typed': implies(raised(result), raised(result, KeyError)),
                'the branch with that id': implies(not raised(result), lambda: result.id == q)}


@contract('CircuitCalculator.Circuit.circuit.Circuit.__post_init__', props=['C19', 'C07'], bounded='component lists of length 3; each position is a ground or a resistor; ids and nodes symbolic')
class circuit_invariant:
    total = True

    def inputs(g):
        comps = []
        for k in range(3):
            if g.bool('ground' + str(k)):
                comps.append(ccp.ground(id=g.label('id' + str(k)), nodes=(g.label('n' + str(k)),)))
            else:
                comps.append(ccp.resistor(id=g.label('id' + str(k)), nodes=(g.label('n' + str(k)), g.label('m' + str(k))), R=g.pos('R' + str(k))))
        return dict(comps=comps)

    def call(f, comps):
        return cct.Circuit(comps)

    def ensures(result, comps):
        grounds = [c for c in comps if c.type == 'ground']
        ids = [c.id for c in comps]
        dup = ids[0] == ids[1] or ids[0] == ids[2] or ids[1] == ids[2]
        return {
            'more than one ground is rejected': implies(len(grounds) > 1, raised(result, cct.MultipleGroundNodes)),
            'duplicate ids are rejected': implies(len(grounds) <= 1 and dup, raised(result, cct.AmbiguousComponentID)),
            'accepted otherwise': implies(len(grounds) <= 1 and not dup, not raised(result)),
            'reference = ground node, else first listed terminal': implies(not raised(result), lambda: result.ground_node == (grounds[0].nodes[0] if len(grounds) == 1 else comps[0].nodes[0])),
            'stored unaltered': implies(not raised(result), lambda: len(result.components) == 3 and all([eq(a, b) for a, b in zip(result.components, comps)])),
        }


@contract('CircuitCalculator.Circuit.circuit.Circuit.__getitem__', props=['C19'], bounded='two components')
class circuit_getitem:
    total = True

    def inputs(g):
        return dict(id1=g.label('id1'), id2=g.label('id2'), q=g.label('q'))

    def requires(id1, id2, q):
        return id1 != id2

    def call(f, id1, id2, q):
        return cct.Circuit([ccp.resistor(id1, ('a', 'b'), 1), ccp.capacitor(id2, ('b', 'a'), 2)])[q]

    def ensures(result, id1, id2, q):
        return {'unknown id raises': iff(raised(result), q != id1 and q != id2),
                'the component with that id': implies(not raised(result), lambda: result.id == q and result.type == ('resistor' if q == id1 else 'capacitor'))}


# ---- C07: transform_circuit keeps every component, in order, each translated by the translator of its own kind


@contract('CircuitCalculator.Circuit.circuit.transform_circuit', props=['C07', 'C02'], bounded='a five-component circuit (R, G, C, ground, ac source) with symbolic values')
class transform_circuit_five:
    def inputs(g):
        comps = [ccp.resistor('R1', ('a', 'b'), g.pos('R')), ccp.conductance('G1', ('b', 'c'), g.pos('G')), ccp.capacitor('C1', ('c', 'g'), g.pos('C')),
                 ccp.ground(nodes=('g',)), ccp.ac_voltage_source('V1', ('a', 'g'), V=g.real('V'), w=g.real('ws', lo=0), phi=g.real('phi'))]
        return dict(circuit=cct.Circuit(comps), w=g.real('w', lo=0), w_resolution=g.real('w_res', lo=0))

    def ensures(result, circuit, w, w_resolution):
        non_ground = [c for c in circuit.components if c.type != 'ground']
        expected = [ctr.transformers[c.type](c, w, w_resolution) for c in non_ground]
        return {
            'one branch per non-ground component, in order': len(result.branches) == 4 and [b.id for b in result.branches] == ['R1', 'G1', 'C1', 'V1'],
            'each branch is its own component translated': all([eq(b, e) for b, e in zip(result.branches, expected)]),
            'reference node is the ground node': result.node_zero_label == 'g',
        }


@contract('CircuitCalculator.Circuit.circuit.transform', props=['C07', 'C02'], bounded='two frequencies')
class transform_two:
    def inputs(g):
        comps = [ccp.inductance('L1', ('a', '0'), g.pos('L')), ccp.dc_current_source('I1', ('0', 'a'), I=g.real('I'), G=g.pos('G'))]
        return dict(circuit=cct.Circuit(comps), w1=g.real('w1', lo=0), w2=g.real('w2', lo=0), w_res=g.real('w_res', lo=0))

    def call(f, circuit, w1, w2, w_res):
        return (f(circuit, [w1, w2], w_res), f(circuit))

    def ensures(result, circuit, w1, w2, w_res):
        nets, default = result
        return {'per frequency': len(nets) == 2 and eq(nets[0], cct.transform_circuit(circuit, w1, w_res)) and eq(nets[1], cct.transform_circuit(circuit, w2, w_res)),
                'default is DC': len(default) == 1 and eq(default[0], cct.transform_circuit(circuit, 0)),
                'no ground component: first listed terminal': nets[0].node_zero_label == 'a'}


# ---- C16: simplifications are electrical identities


def pot_eq(s1, s2, nodes):
    return all([eq(s1.get_potential(n), s2.get_potential(n)) for n in nodes])


def cur_eq(s1, s2, ids):
    return all([eq(s1.get_current(i), s2.get_current(i)) and eq(s1.get_voltage(i), s2.get_voltage(i)) for i in ids])


def shorts_case(name, build, surviving_nodes, surviving_ids, keep_ids=(), drop_for_reference=(), bridged=()):
    """drop_for_reference: branches left out of the network whose solution serves as the reference (parallel shorts form a
    loop of ideal sources, for which the circuit equations have no unique solution).  bridged: elements in parallel to a removed short;
    they carry no voltage and disappear with the contraction (a self-loop is not a branch of the contracted network)."""
    @contract('CircuitCalculator.Network.transformers.remove_short_circuit_elements', props=['C16'], name='shorts_' + name,
              bounded='topology ' + name + ' (contracts/net_ops_bounded.py), element values symbolic')
    class _c:
        def inputs(g):
            return dict(net=build(g))

        def requires(net):
            ref = Network([b for b in net.branches if b.id not in drop_for_reference], net.node_zero_label)
            return (nonsingular(nodal_analysis_coefficient_matrix(ref)) and net['Vs'].element.I != 0
                    and all([b.element.Z != 0 for b in net.branches if b.element.type == 'impedance']))

        def call(f, net):
            keep = [net[k].element for k in keep_ids]
            before = [(b.node1, b.node2, b.element) for b in net.branches]
            out = f(net, keep=keep) if keep_ids else f(net)
            ref = Network([b for b in net.branches if b.id not in drop_for_reference], net.node_zero_label)
            return (out, solve(ref), solve(out), before)

        def ensures(result, net):
            out, s_in, s_out, before = result
            removable = [b.id for b in net.branches if elm.is_short_circuit(b.element) and b.id not in keep_ids] + list(bridged)
            return {
                'no removable short circuit survives': not any([b.id in removable for b in out.branches]),
                'exactly the other branches survive, in order': [b.id for b in out.branches] == [b.id for b in net.branches if b.id not in removable],
                'surviving elements keep their values': all([eq(b.element, net[b.id].element) for b in out.branches]),
                'same reference node': out.node_zero_label == net.node_zero_label,
                'potentials of surviving nodes unchanged': pot_eq(s_in, s_out, surviving_nodes),
                'voltages and currents of surviving branches unchanged': cur_eq(s_in, s_out, surviving_ids),
                'input network not modified': [(b.node1, b.node2, b.element) for b in net.branches] == before,
            }
    return _c


def _src(g):
    return Branch('0', 'a', elm.current_source('Vs', g.complex('V')))


shorts_case('single', lambda g: Network([_src(g), Branch('a', 'b', elm.short_circuit('S1')), Branch('b', '0', elm.impedance('Z1', g.complex('Z1')))], '0'),
            ['0'], ['Vs', 'Z1'])
shorts_case('chain_forward', lambda g: Network([_src(g), Branch('a', 'b', elm.short_circuit('S1')), Branch('b', 'c', elm.short_circuit('S2')),
                                                Branch('c', '0', elm.impedance('Z1', g.complex('Z1')))], '0'), ['0'], ['Vs', 'Z1'])
shorts_case('chain_backward', lambda g: Network([_src(g), Branch('b', 'c', elm.short_circuit('S2')), Branch('a', 'b', elm.short_circuit('S1')),
                                                 Branch('c', '0', elm.impedance('Z1', g.complex('Z1')))], '0'), ['0'], ['Vs', 'Z1'])
shorts_case('star', lambda g: Network([_src(g), Branch('a', 'b', elm.impedance('Z0', g.complex('Z0'))), Branch('b', 'c', elm.short_circuit('S1')),
                                       Branch('b', 'd', elm.short_circuit('S2')), Branch('c', '0', elm.impedance('Z1', g.complex('Z1'))),
                                       Branch('d', '0', elm.impedance('Z2', g.complex('Z2')))], '0'), ['0', 'a'], ['Vs', 'Z0', 'Z1', 'Z2'])
shorts_case('parallel_and_to_reference', lambda g: Network([_src(g), Branch('a', 'b', elm.impedance('Z0', g.complex('Z0'))), Branch('b', 'c', elm.short_circuit('S1')),
                                                            Branch('c', 'b', elm.short_circuit('S2')), Branch('c', 'd', elm.impedance('Z1', g.complex('Z1'))),
                                                            Branch('0', 'd', elm.short_circuit('S3'))], '0'), ['0', 'a'], ['Vs', 'Z0', 'Z1'], drop_for_reference=('S2',))
shorts_case('element_parallel_to_a_short', lambda g: Network([_src(g), Branch('a', 'b', elm.impedance('Z0', g.complex('Z0'))), Branch('b', 'c', elm.short_circuit('S1')),
                                                             Branch('c', 'b', elm.impedance('Zp', g.complex('Zp'))), Branch('c', '0', elm.impedance('Z1', g.complex('Z1')))], '0'),
            ['0', 'a'], ['Vs', 'Z0', 'Z1'], bridged=('Zp',))
# a short from a node to the reference listed first, a second short leaving from the same node (its first terminal) listed later:
# after the first contraction the second one connects the reference node itself
shorts_case('to_reference_then_onwards', lambda g: Network([_src(g), Branch('a', 'b', elm.impedance('Z0', g.complex('Z0'))), Branch('b', '0', elm.short_circuit('S1')),
                                                            Branch('b', 'c', elm.short_circuit('S2')), Branch('c', 'd', elm.impedance('Z1', g.complex('Z1'))),
                                                            Branch('d', '0', elm.impedance('Z2', g.complex('Z2')))], '0'), ['0', 'a', 'd'], ['Vs', 'Z0', 'Z1', 'Z2'])
shorts_case('onwards_then_to_reference', lambda g: Network([_src(g), Branch('a', 'b', elm.impedance('Z0', g.complex('Z0'))), Branch('c', 'b', elm.short_circuit('S2')),
                                                            Branch('0', 'b', elm.short_circuit('S1')), Branch('c', 'd', elm.impedance('Z1', g.complex('Z1'))),
                                                            Branch('d', '0', elm.impedance('Z2', g.complex('Z2')))], '0'), ['0', 'a', 'd'], ['Vs', 'Z0', 'Z1', 'Z2'])
shorts_case('kept_short', lambda g: Network([_src(g), Branch('a', 'b', elm.short_circuit('S1')), Branch('b', 'c', elm.short_circuit('K')),
                                             Branch('c', '0', elm.impedance('Z1', g.complex('Z1')))], '0'), ['0', 'c'], ['Vs', 'Z1', 'K'], keep_ids=('K',))


@contract('CircuitCalculator.Network.transformers.remove_open_circuit_elements', props=['C16'], bounded='one fixed topology with two open branches')
class opens_case:
    def inputs(g):
        return dict(net=Network([Branch('a', '0', elm.voltage_source('Vs', g.complex('V'))), Branch('a', 'b', elm.open_circuit('O1')),
                                 Branch('a', 'b', elm.impedance('Z0', g.complex('Z0'))), Branch('b', '0', elm.impedance('Z1', g.complex('Z1'))),
                                 Branch('b', '0', elm.current_source('O2', 0)), Branch('b', '0', elm.current_source('Is', g.complex('I')))], '0'))

    def requires(net):
        return nonsingular(nodal_analysis_coefficient_matrix(net)) and net['Is'].element.I != 0

    def call(f, net):
        out = f(net)
        return (out, solve(net), solve(out))

    def ensures(result, net):
        out, s_in, s_out = result
        return {'open branches removed, others kept in order': [b.id for b in out.branches] == ['Vs', 'Z0', 'Z1', 'Is'],
                'branches unchanged': all([eq(b, net[b.id]) for b in out.branches]), 'same reference': out.node_zero_label == '0',
                'solution unchanged': pot_eq(s_in, s_out, ['a', 'b', '0']) and cur_eq(s_in, s_out, ['Vs', 'Z0', 'Z1', 'Is'])}


@contract('CircuitCalculator.Network.transformers.remove_element', props=['C16', 'C19'], bounded='three branches; id to remove symbolic')
class remove_element_case:
    total = True

    def inputs(g):
        return dict(net=Network([Branch('a', '0', elm.resistor('R1', g.pos('R1'))), Branch('a', '0', elm.resistor('R2', g.pos('R2'))),
                                 Branch('0', 'a', elm.current_source('Is', g.complex('I')))], '0'), q=g.label('q'))

    def call(f, net, q):
        return f(net, q)

    def ensures(result, net, q):
        known = q == 'R1' or q == 'R2' or q == 'Is'
        return {'unknown element raises': iff(raised(result), not known),
                'exactly that branch is gone': implies(known, lambda: [b.id for b in result.branches] == [b.id for b in net.branches if b.id != q]
                                                       and all([eq(b, net[b.id]) for b in result.branches]) and result.node_zero_label == '0'),
                'input unchanged': [b.id for b in net.branches] == ['R1', 'R2', 'Is']}


@contract('CircuitCalculator.Network.transformers.switch_ground_node', props=['C16', 'C03', 'C19'], bounded='topology T1; new reference symbolic')
class switch_ground_case:
    total = True

    def inputs(g):
        return dict(net=Network([Branch('a', '0', elm.voltage_source('Vs', g.complex('V'))), Branch('a', 'b', elm.impedance('Z1', g.complex('Z1'))),
                                 Branch('0', 'b', elm.impedance('Z2', g.complex('Z2')))], '0'), new=g.label('new'))

    def requires(net, new):
        return nonsingular(nodal_analysis_coefficient_matrix(net))

    def call(f, net, new):
        out = f(net, new)
        return (out, solve(net), solve(out))

    def ensures(result, net, new):
        known = new == 'a' or new == 'b' or new == '0'
        return {'unknown node is rejected': iff(raised(result), not known),
                'same branches, new reference': implies(known, lambda: eq(result[0].branches, net.branches) and result[0].node_zero_label == new),
                'all potentials shift by one common constant': implies(known, lambda: all([eq(result[2].get_potential(n), result[1].get_potential(n) - result[1].get_potential(new)) for n in ('a', 'b', '0')])),
                'currents unchanged': implies(known, lambda: cur_eq(result[1], result[2], ['Vs', 'Z1', 'Z2']))}


@contract('CircuitCalculator.Network.transformers.passive_network', props=['C16', 'C04'], bounded='topology T1 plus a lossy source; exemption list = one element or none')
class passive_network_case:
    def inputs(g):
        return dict(net=Network([Branch('a', '0', elm.voltage_source('Vs', g.complex('V'))), Branch('a', 'b', elm.impedance('Z1', g.complex('Z1'))),
                                 Branch('0', 'b', elm.current_source('Iq', g.complex('I'), g.complex('Yq'))),
                                 Branch('b', '0', elm.current_source('Is', g.complex('I2')))], '0'), keep_vs=g.bool('keep_vs'))

    def requires(net, keep_vs):
        return net['Vs'].element.V != 0 and net['Iq'].element.I != 0 and net['Iq'].element.Y != 0 and net['Is'].element.I != 0 and net['Z1'].element.Z != 0

    def call(f, net, keep_vs):
        keep = [net['Vs'].element] if keep_vs else []
        return f(net, keep=keep)

    def ensures(result, net, keep_vs):
        ids = [b.id for b in result.branches]
        return {
            'ideal current source removed, lossy source becomes its admittance, ideal voltage source contracted unless exempt':
                ids == (['Vs', 'Z1', 'Iq'] if keep_vs else ['Z1', 'Iq']),
            'exempt element untouched': implies(keep_vs, lambda: eq(result['Vs'], net['Vs'])),
            'internal admittance kept, source value zero': eq(result['Iq'].element.Y, net['Iq'].element.Y) and eq(result['Iq'].element.I, 0),
            'orientation kept': result['Iq'].node1 == '0' and result['Iq'].node2 == 'b' and result['Z1'].node2 == 'b' and result['Z1'].node1 == ('a' if keep_vs else '0'),
            'same reference': result.node_zero_label == '0',
        }


# ---- C06: port impedance on small passive networks


@contract('CircuitCalculator.Network.NodalAnalysis.node_analysis.open_circuit_impedance', props=['C06'], bounded='series/parallel ladder of positive resistances with a lossy source and a current source')
class port_impedance_ladder:
    def inputs(g):
        return dict(net=Network([Branch('1', '0', elm.voltage_source('Vq', g.complex('V'), g.pos('Zq'))), Branch('1', '2', elm.impedance('Z1', g.pos('Z1'))),
                                 Branch('2', '0', elm.impedance('Z2', g.pos('Z2'))), Branch('0', '2', elm.current_source('Is', g.complex('I')))], '0'))

    def requires(net):
        return net['Vq'].element.V != 0

    def call(f, net):
        return (f(net, '2', '0'), f(net, '0', '2'), f(net, '1', '2'), f(net, '2', '2'), f(trf.switch_ground_node(net, '1'), '2', '0'), element_impedance(net, 'Z2'))

    def ensures(result, net):
        Zq, Z1, Z2 = net['Vq'].element.Z, net['Z1'].element.Z, net['Z2'].element.Z
        z20, z02, z12, z22, z20_other_ref, ze = result
        return {
            'Z(2,0) = Z2 || (Z1 + Zq)': eq(z20 * (Z2 + Z1 + Zq), Z2 * (Z1 + Zq)),
            'symmetric': eq(z02, z20),
            'Z(1,2) = Z1 || (Zq + Z2)': eq(z12 * (Z1 + Zq + Z2), Z1 * (Zq + Z2)),
            'identical nodes': eq(z22, 0),
            'independent of the reference node': eq(z20_other_ref, z20),
            'seen by Z2 = Z1 + Zq': eq(ze, Z1 + Zq),
        }


@contract('CircuitCalculator.Network.NodalAnalysis.node_analysis.open_circuit_impedance', props=['C06'], bounded='one topology with an ideal voltage source inside the network')
class port_impedance_with_ideal_source:
    def inputs(g):
        return dict(net=Network([Branch('1', '0', elm.voltage_source('Vs', g.complex('V'))), Branch('1', '2', elm.impedance('Z1', g.complex('Z1'))),
                                 Branch('2', '0', elm.impedance('Z2', g.complex('Z2')))], '0'))

    def requires(net):
        return net['Z1'].element.Z != 0 and net['Z2'].element.Z != 0 and net['Z1'].element.Z + net['Z2'].element.Z != 0

    def call(f, net):
        return (f(net, '2', '0'), f(net, '1', '0'))

    def ensures(result, net):
        Z1, Z2 = net['Z1'].element.Z, net['Z2'].element.Z
        return {'ideal voltage source is shorted: Z(2,0) = Z1 || Z2': eq(result[0] * (Z1 + Z2), Z1 * Z2),
                'across the ideal voltage source': eq(result[1], 0)}


@contract('CircuitCalculator.Network.NodalAnalysis.node_analysis.open_circuit_impedance', props=['C06', 'C03'], bounded='one topology with a node that is connected only through an open branch (e.g. a capacitor at w = 0)')
class port_impedance_with_dangling_node:
    def inputs(g):
        return dict(net=Network([Branch('a', '0', elm.open_circuit('C_at_dc')), Branch('b', '0', elm.resistor('R1', g.pos('R1'))),
                                 Branch('c', 'b', elm.resistor('R2', g.pos('R2'))), Branch('c', '0', elm.resistor('R3', g.pos('R3')))], '0'))

    def call(f, net):
        return (f(net, 'b', '0'), f(net, 'c', '0'), f(net, 'c', 'b'))

    def ensures(result, net):
        R1, R2, R3 = net['R1'].element.Z, net['R2'].element.Z, net['R3'].element.Z
        return {'Z(b,0) = R1 || (R2 + R3)': eq(result[0] * (R1 + R2 + R3), R1 * (R2 + R3)),
                'Z(c,0) = R3 || (R1 + R2)': eq(result[1] * (R1 + R2 + R3), R3 * (R1 + R2)),
                'Z(c,b) = R2 || (R1 + R3)': eq(result[2] * (R1 + R2 + R3), R2 * (R1 + R3))}


@contract('CircuitCalculator.Network.transformers.remove_ideal_voltage_sources', props=['C16'], bounded='one topology; the exemption list holds an element that is itself a short circuit')
class exempt_short_is_left_untouched:
    def inputs(g):
        which = g.choice('which', ['zero-volt ideal source', 'short_circuit element'])
        kept = elm.voltage_source('K', 0) if which == 'zero-volt ideal source' else elm.short_circuit('K')
        return dict(net=Network([Branch('a', '0', elm.voltage_source('Vs', g.complex('V'))), Branch('a', 'b', kept),
                                 Branch('b', 'c', elm.impedance('Z1', g.complex('Z1'))), Branch('c', '0', elm.voltage_source('V2', g.complex('V2')))], '0'))

    def requires(net):
        return net['Vs'].element.V != 0 and net['V2'].element.V != 0 and net['Z1'].element.Z != 0

    def call(f, net):
        keep = [net['K'].element]
        return (f(net, keep=keep), trf.passive_network(net, keep=keep), trf.remove_short_circuit_elements(net, keep=keep))

    def ensures(result, net):
        out = {}
        for name, r in zip(('remove_ideal_voltage_sources', 'passive_network', 'remove_short_circuit_elements'), result):
            out[name + ': exempt element untouched'] = any([b.id == 'K' for b in r.branches]) and eq(r['K'].element, net['K'].element) and r['K'].node2 == 'b'
            out[name + ': Z1 keeps its terminals towards the exempt element'] = r['Z1'].node1 == 'b'
        out['non-exempt ideal sources are contracted'] = [b.id for b in result[0].branches] == ['K', 'Z1'] and result[0]['K'].node1 == '0' and result[0]['Z1'].node2 == '0'
        return out


@contract('CircuitCalculator.Network.NodalAnalysis.node_analysis.open_circuit_impedance', props=['C06', 'C03'], bounded='one topology with two dangling nodes sorted before the queried node')
class port_impedance_with_two_dangling_nodes:
    def inputs(g):
        return dict(net=Network([Branch('a', '0', elm.open_circuit('Ca')), Branch('b', 'a', elm.open_circuit('Cb')), Branch('c', '0', elm.resistor('R1', g.pos('R1'))),
                                 Branch('d', 'c', elm.resistor('R2', g.pos('R2'))), Branch('d', '0', elm.resistor('R3', g.pos('R3')))], '0'))

    def call(f, net):
        return (f(net, 'c', '0'), f(net, 'd', '0'), f(net, 'd', 'c'))

    def ensures(result, net):
        R1, R2, R3 = net['R1'].element.Z, net['R2'].element.Z, net['R3'].element.Z
        return {'Z(c,0) = R1 || (R2 + R3)': eq(result[0] * (R1 + R2 + R3), R1 * (R2 + R3)),
                'Z(d,0) = R3 || (R1 + R2)': eq(result[1] * (R1 + R2 + R3), R3 * (R1 + R2)),
                'Z(d,c) = R2 || (R1 + R3)': eq(result[2] * (R1 + R2 + R3), R2 * (R1 + R3))}


@contract('CircuitCalculator.Network.NodalAnalysis.node_analysis.open_circuit_impedance', props=['C06'], bounded='series R-L-C at resonance (jX and -jX)')
class port_impedance_series_resonance:
    def inputs(g):
        X = g.pos('X')
        return dict(net=Network([Branch('1', '2', elm.resistor('R', g.pos('R'))), Branch('2', '3', elm.impedance('L', 1j * X)),
                                 Branch('3', '0', elm.impedance('C', -1j * X))], '0'))

    def call(f, net):
        return (f(net, '1', '0'), f(net, '2', '0'), f(net, '3', '0'))

    def ensures(result, net):
        R, X = net['R'].element.Z, net['L'].element.Z.imag
        return {'Z(1,0) = R + jX - jX': eq(result[0], R), 'Z(2,0) = 0': eq(result[1], 0), 'Z(3,0) = -jX': eq(result[2], -1j * X)}


@contract('CircuitCalculator.Network.NodalAnalysis.node_analysis.open_circuit_impedance', props=['C06', 'C03'],
          bounded='one topology with a dangling node whose name sorts AFTER the queried node, the queried node not being the first one')
class port_impedance_with_dangling_node_sorted_last:
    def inputs(g):
        late = g.choice('dangling node name', ['z', 'm'])
        return dict(net=Network([Branch('b', '0', elm.resistor('R1', g.pos('R1'))), Branch('a', 'b', elm.resistor('R2', g.pos('R2'))),
                                 Branch('a', '0', elm.resistor('R3', g.pos('R3'))), Branch(late, '0', elm.open_circuit('C_at_dc')),
                                 Branch(late, 'b', elm.open_circuit('C2_at_dc'))], '0'))

    def call(f, net):
        return (f(net, 'b', '0'), f(net, 'a', '0'), f(net, 'a', 'b'))

    def ensures(result, net):
        R1, R2, R3 = net['R1'].element.Z, net['R2'].element.Z, net['R3'].element.Z
        return {'Z(b,0) = R1 || (R2 + R3)': eq(result[0] * (R1 + R2 + R3), R1 * (R2 + R3)),
                'Z(a,0) = R3 || (R1 + R2)': eq(result[1] * (R1 + R2 + R3), R3 * (R1 + R2)),
                'Z(a,b) = R2 || (R1 + R3)': eq(result[2] * (R1 + R2 + R3), R2 * (R1 + R3))}


@contract('CircuitCalculator.Network.NodalAnalysis.node_analysis.open_circuit_impedance', props=['C06', 'C01'],
          bounded='series chain with two parallel branches (possibly of EQUAL value) between two inner nodes')
class port_impedance_parallel_pair_inside:
    def inputs(g):
        return dict(net=Network([Branch('1', '2', elm.resistor('Ra', g.pos('Ra'))), Branch('2', '3', elm.resistor('Rp', g.pos('Rp'))),
                                 Branch('3', '2', elm.resistor('Rq', g.pos('Rq'))), Branch('3', '0', elm.resistor('Rb', g.pos('Rb')))], '0'))

    def call(f, net):
        return (f(net, '1', '0'), f(net, '2', '3'))

    def ensures(result, net):
        Ra, Rp, Rq, Rb = net['Ra'].element.Z, net['Rp'].element.Z, net['Rq'].element.Z, net['Rb'].element.Z
        return {'Z(1,0) = Ra + Rp || Rq + Rb': eq((result[0] - Ra - Rb) * (Rp + Rq), Rp * Rq),
                'Z(2,3) = Rp || Rq': eq(result[1] * (Rp + Rq), Rp * Rq)}
