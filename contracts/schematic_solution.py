"""Contracts for SimpleCircuit/DiagramSolution.py (C14): each annotation is the display helper applied to the right quantity
of the solution, negated exactly when requested in reverse, with the right unit and options; draw_* hand that text and the
right direction flag to the label symbols.  The display helpers themselves (number -> text, C18) are kept abstract."""
import schemdraw.util
import numpy as np
from pyvc.spec import contract, eq, implies, iff, raised
from CircuitCalculator.SimpleCircuit import Elements as elm
from CircuitCalculator.SimpleCircuit import Display as dsp
from CircuitCalculator.SimpleCircuit import DiagramSolution as ds
from CircuitCalculator.SimpleCircuit.DiagramParser import SchematicDiagramParser, UnknownElement
from contracts.schematic_parser import place, drawing

P = ['C14']


class StubSolution:
    def __init__(self, v, i, p, phi, w):
        self.v, self.i, self.p, self.phi, self.w = v, i, p, phi, w

    def get_voltage(self, name):
        return self.v

    def get_current(self, name):
        return self.i

    def get_power(self, name):
        return self.p

    def get_potential(self, name):
        return self.phi


@contract('CircuitCalculator.SimpleCircuit.DiagramSolution.ComplexNetworkDiagramSolution', props=P)
class complex_annotations:
    def inputs(g):
        return dict(v=g.complex('v'), i=g.complex('i'), p=g.complex('p'), phi=g.complex('phi'), reverse=g.bool('reverse'), deg=g.bool('deg'), polar=g.bool('polar'),
                    precision=g.int('precision', lo=1, hi=6), name=g.label('name'))

    def call(f, v, i, p, phi, reverse, deg, polar, precision, name):
        s = f(solution=StubSolution(v, i, p, phi, 0), deg=deg, polar=polar, precision=precision)
        return (s.get_voltage(name, reverse), s.get_current(name, reverse), s.get_power(name, reverse), s.get_potential(name))

    def ensures(result, v, i, p, phi, reverse, deg, polar, precision, name):
        sign = -1 if reverse else 1
        return {
            'voltage': eq(result[0], dsp.print_complex(value=sign * v, unit='V', precision=precision, polar=polar, deg=deg)),
            'current': eq(result[1], dsp.print_complex(value=sign * i, unit='A', precision=precision, polar=polar, deg=deg)),
            'power': eq(result[2], dsp.print_complex(value=sign * p, unit='W', precision=precision, polar=polar, deg=deg)),
            'potential (never negated)': eq(result[3], dsp.print_complex(value=phi, unit='V', precision=precision, polar=polar, deg=deg)),
        }


@contract('CircuitCalculator.SimpleCircuit.DiagramSolution.RealNetworkDiagramSolution', props=P)
class real_annotations:
    def inputs(g):
        return dict(v=g.real('v'), i=g.real('i'), p=g.real('p'), phi=g.real('phi'), reverse=g.bool('reverse'), precision=g.int('precision', lo=1, hi=6), name=g.label('name'))

    def call(f, v, i, p, phi, reverse, precision, name):
        s = f(solution=StubSolution(v, i, p, phi, 0), precision=precision)
        return (s.get_voltage(name, reverse), s.get_current(name, reverse), s.get_power(name, reverse), s.get_potential(name))

    def ensures(result, v, i, p, phi, reverse, precision, name):
        sign = -1 if reverse else 1
        return {
            'voltage': eq(result[0], dsp.print_real(sign * v, unit='V', precision=precision)),
            'current': eq(result[1], dsp.print_real(sign * i, unit='A', precision=precision)),
            'power': eq(result[2], dsp.print_active_power(sign * p, precision=precision)),
            'potential (never negated)': eq(result[3], dsp.print_real(phi, unit='V', precision=precision)),
        }


@contract('CircuitCalculator.SimpleCircuit.DiagramSolution.TimeDomainSteadyStateDiagramSolution', props=P)
class sinusoidal_annotations:
    def inputs(g):
        return dict(v=g.complex('v'), i=g.complex('i'), p=g.complex('p'), phi=g.complex('phi'), w=g.real('w', lo=0), reverse=g.bool('reverse'), deg=g.bool('deg'),
                    hertz=g.bool('hertz'), sin=g.bool('sin'), precision=g.int('precision', lo=1, hi=6), name=g.label('name'))

    def call(f, v, i, p, phi, w, reverse, deg, hertz, sin, precision, name):
        s = f(solution=StubSolution(v, i, p, phi, w), deg=deg, hertz=hertz, sin=sin, precision=precision)
        return (s.get_voltage(name, reverse), s.get_current(name, reverse), s.get_power(name, reverse), s.get_potential(name))

    def ensures(result, v, i, p, phi, w, reverse, deg, hertz, sin, precision, name):
        sign = -1 if reverse else 1
        opts = dict(precision=precision, w=w, sin=sin, deg=deg, hertz=hertz)
        return {
            'voltage': eq(result[0], dsp.print_sinosoidal(value=sign * v, unit='V', **opts)),
            'current': eq(result[1], dsp.print_sinosoidal(value=sign * i, unit='A', **opts)),
            'power': eq(result[2], dsp.print_sinosoidal(value=sign * p, unit='W', **opts)),
            'potential (never negated)': eq(result[3], dsp.print_sinosoidal(value=phi, unit='V', **opts)),
        }


class StubTexts:
    """Diagram solution that records what it is asked for."""
    def __init__(self):
        self.asked = []

    def get_voltage(self, name, reverse):
        self.asked.append(('voltage', name, reverse))
        return 'V-TEXT'

    def get_current(self, name, reverse):
        self.asked.append(('current', name, reverse))
        return 'I-TEXT'

    def get_power(self, name, reverse):
        self.asked.append(('power', name, reverse))
        return 'P-TEXT'

    def get_potential(self, name):
        self.asked.append(('potential', name))
        return 'PHI-TEXT'


@contract('CircuitCalculator.SimpleCircuit.DiagramSolution.SchematicDiagramSolution', props=P + ['C19'], bounded='one drawing with a source and a resistor')
class draw_labels:
    total = True
    frame = False

    def inputs(g):
        return dict(el_rev=g.bool('el_rev'), reverse=g.bool('reverse'), end=g.bool('end'), which=g.choice('which', ['V1', 'R1', 'nope']), V=g.real('V'), R=g.pos('R'))

    def call(f, el_rev, reverse, end, which, V, R):
        s = drawing([place(elm.VoltageSource(name='V1', V=V, reverse=el_rev), (0, 0), (0, 3)), place(elm.Resistor(name='R1', R=R), (0, 3), (3, 3))])
        texts = StubTexts()
        sol = f(diagram_parser=SchematicDiagramParser(s), solution=texts)
        v = sol.draw_voltage(which, reverse=reverse)
        i = sol.draw_current(which, reverse=reverse, end=end)
        p = sol.draw_power(which, reverse=reverse)
        return (v, i, p, texts.asked, s)

    def ensures(result, el_rev, reverse, end, which, V, R):
        known = which != 'nope'
        is_rev = el_rev and which == 'V1'
        return {
            'unknown element raises': iff(raised(result), not known),
            'typed': implies(raised(result), raised(result, UnknownElement)),
            'texts requested for that element in the requested direction': implies(known, lambda: result[3] == [('voltage', which, reverse), ('current', which, reverse), ('power', which, reverse)]),
            'voltage label: text and arrow direction (reverse xor element reversed)': implies(known, lambda: isinstance(result[0], elm.VoltageLabel) and result[0]._userparams['vlabel'] == 'V-TEXT'
                                                                                           and result[0]._userparams['reverse'] == (reverse != is_rev)),
            'current label: text, arrow direction, arrow position': implies(known, lambda: isinstance(result[1], elm.CurrentLabel) and result[1]._userparams['ilabel'] == 'I-TEXT'
                                                                            and result[1]._userparams['reverse'] == (reverse != is_rev) and result[1]._userparams['start'] == (not end)),
            'power label: text': implies(known, lambda: isinstance(result[2], elm.PowerLabel) and result[2]._userparams['plabel'] == 'P-TEXT'),
        }
