"""Sequence-layer contracts that are NOT registered for any property (not part of any check): they are true and mostly
provable, but the solver needs more than the quick budget or leaves a clause `unknown`, so they would make a check flaky.
Kept as a record of where the sequence layer currently ends (DESIGN Part I.11)."""
from pyvc.spec import contract, eq, implies, iff, forall, exists, indices, raised
from CircuitCalculator.Network.network import Network, Branch
from contracts.seq_network import any_branch, valid

# ---- source mappers: sorted list of identifiers (distinct only by the network invariant, which the layer does not propagate)

from CircuitCalculator.Network.NodalAnalysis import label_mapping as lm
from CircuitCalculator.Network import elements as elm


@contract('CircuitCalculator.Network.NodalAnalysis.label_mapping.alphabetic_current_source_mapper', props=['C03', 'C01'], name='alphabetic_current_source_mapper_any_length')
class current_source_mapper:
    def inputs(g):
        return dict(branches=g.list('b', any_branch, min_len=1), zero=g.label('zero'), a=g.label('qa'), b=g.label('qb'))

    def requires(branches, zero, a, b):
        return valid(branches, zero)

    def call(f, branches, zero, a, b):
        m = f(Network(branches, zero))
        return (m, a in m.keys, b in m.keys)

    def ensures(result, branches, zero, a, b):
        m, has_a, has_b = result
        return {
            'exactly the current sources are mapped': iff(has_a, exists(branches, lambda x: x.id == a and elm.is_current_source(x.element))),
            'strictly monotone in the identifier': implies(has_a and has_b and a < b, lambda: m[a] < m[b]),
        }
