"""Sequence-layer contracts that are NOT registered for any property (not part of any check): they are true and mostly
provable, but the solver needs more than the quick budget or leaves a clause `unknown`, so they would make a check flaky.
Kept as a record of where the sequence layer currently ends (DESIGN Part I.11)."""
from pyvc.spec import contract, eq, implies, iff, forall, exists, indices, raised
from CircuitCalculator.Network.network import Network, Branch
from contracts.seq_network import any_branch, valid

# ---- label -> matrix index maps for networks of any length (C03: the only place where label ORDER enters the analysis)

from CircuitCalculator.Network.NodalAnalysis import label_mapping as lm


@contract('CircuitCalculator.Network.NodalAnalysis.label_mapping.alphabetic_node_mapper', props=['C03', 'C01'], name='alphabetic_node_mapper_any_length')
class node_mapper:
    """Every node except the reference gets an index in [0, N); the map is strictly monotone in the label (hence one-to-one), so
    renaming nodes permutes indices consistently and nothing else."""
    def inputs(g):
        return dict(branches=g.list('b', any_branch, min_len=1), zero=g.label('zero'), a=g.label('qa'), b=g.label('qb'))

    def requires(branches, zero, a, b):
        return valid(branches, zero)

    def call(f, branches, zero, a, b):
        m = f(Network(branches, zero))
        return (m, a in m.keys, b in m.keys, zero in m.keys)

    def ensures(result, branches, zero, a, b):
        m, has_a, has_b, has_zero = result
        is_node_a = exists(branches, lambda x: x.node1 == a or x.node2 == a)
        is_node_b = exists(branches, lambda x: x.node1 == b or x.node2 == b)
        return {
            'the reference node has no index': not has_zero,
            'exactly the other nodes are mapped': iff(has_a, is_node_a and a != zero),
            'indices in range': implies(has_a, lambda: 0 <= m[a] and m[a] < m.N),
            'strictly monotone in the label': implies(has_a and has_b and a < b, lambda: m[a] < m[b]),
        }
