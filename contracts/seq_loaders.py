"""load_network for description lists of ARBITRARY length (sequence layer): every entry becomes the branch with exactly its
terminals, identifier and value, in the same position; a faulty entry anywhere is rejected; the description is not modified."""
import numpy as np
from pyvc.spec import contract, eq, implies, iff, forall, exists, indices, raised
from CircuitCalculator.Network import loaders as ld
from CircuitCalculator.Network import elements as elm
from CircuitCalculator.Network import network as nw
from contracts.loaders import value_dict, denote

KINDS = ['resistor', 'conductor', 'impedance', 'admittance', 'linear_current_source', 'current_source', 'real_current_source',
         'linear_voltage_source', 'voltage_source', 'real_voltage_source', 'short_circuit', 'open_circuit']


def any_entry(g):
    kind = g.choice('kind', KINDS)
    e = {'N1': g.label('n1'), 'N2': g.label('n2'), 'id': g.label('id'), 'type': kind}
    if kind == 'resistor':
        e['R'] = g.real('R')
    if kind == 'conductor':
        e['G'] = g.real('G')
    if kind == 'impedance':
        e['Z'] = value_dict(g, 'Z', g.bool('Z_polar'))
    if kind == 'admittance':
        e['Y'] = value_dict(g, 'Y', g.bool('Y_polar'))
    if kind == 'linear_current_source':
        e['I'] = value_dict(g, 'I', g.bool('I_polar'))
        e['Y'] = value_dict(g, 'Y', g.bool('Y_polar'))
    if kind == 'current_source':
        e['I'] = value_dict(g, 'I', g.bool('I_polar'))
    if kind == 'real_current_source':
        e['I'] = g.real('Ir')
    if kind == 'linear_voltage_source':
        e['V'] = value_dict(g, 'V', g.bool('V_polar'))
        e['Z'] = value_dict(g, 'Z', g.bool('Z_polar'))
    if kind == 'voltage_source':
        e['V'] = value_dict(g, 'V', g.bool('V_polar'))
    if kind == 'real_voltage_source':
        e['V'] = g.real('Vr')
    return e


def matches(b, e):
    """Branch b is what entry e describes."""
    k = e['type']
    if not (b.node1 == e['N1'] and b.node2 == e['N2'] and b.id == e['id']):
        return False
    x = b.element
    if k == 'resistor':
        return eq(x.Z, e['R']) and eq(x.V, 0)
    if k == 'conductor':
        return eq(x.Y, e['G']) and eq(x.I, 0)
    if k == 'impedance':
        return eq(x.Z, denote(e['Z'])) and eq(x.V, 0)
    if k == 'admittance':
        return eq(x.Y, denote(e['Y'])) and eq(x.I, 0)
    if k == 'linear_current_source':
        return eq(x.I, denote(e['I'])) and eq(x.Y, denote(e['Y']))
    if k == 'current_source':
        return eq(x.I, denote(e['I'])) and eq(x.Y, 0)
    if k == 'real_current_source':
        return eq(x.I, e['I']) and eq(x.Y, 0)
    if k == 'linear_voltage_source':
        return eq(x.V, denote(e['V'])) and eq(x.Z, denote(e['Z']))
    if k == 'voltage_source':
        return eq(x.V, denote(e['V'])) and eq(x.Z, 0)
    if k == 'real_voltage_source':
        return eq(x.V, e['V']) and eq(x.Z, 0)
    if k == 'short_circuit':
        return elm.is_short_circuit(x)
    return elm.is_open_circuit(x)


def distinct(es):
    return forall(indices(es), lambda i: forall(indices(es), lambda j: implies(i != j, es[i]['id'] != es[j]['id'])))


def grounded(es):
    return len(es) == 0 or exists(es, lambda e: e['N1'] == '0' or e['N2'] == '0')


@contract('CircuitCalculator.Network.loaders.load_network', props=['C17', 'C20'], name='load_network_any_length')
class load_network_all:
    def inputs(g):
        return dict(network_dict=g.list('e', any_entry))

    def requires(network_dict):
        return distinct(network_dict) and grounded(network_dict)

    def ensures(result, network_dict):
        return {
            'one branch per entry': len(result.branches) == len(network_dict),
            'branch i is what entry i describes': forall(indices(network_dict), lambda i: matches(result.branches[i], network_dict[i])),
            'reference node': result.node_zero_label == '0',
        }


@contract('CircuitCalculator.Network.loaders.load_network', props=['C17', 'C19'], name='load_network_any_length_rejects')
class load_network_all_rejects:
    """Well-formed entries, but the list as a whole may be invalid: duplicate identifiers and a missing reference node are
    rejected with the network's exceptions, and only those."""
    total = True

    def inputs(g):
        return dict(network_dict=g.list('e', any_entry))

    def ensures(result, network_dict):
        ok = distinct(network_dict) and grounded(network_dict)
        return {
            'loaded iff valid': iff(not raised(result), ok),
            'typed rejection': implies(not ok, raised(result, nw.AmbiguousBranchIDs, nw.FloatingGroundNode)),
        }


def faulty_entry(g):
    kind = g.choice('kind', ['resistor', 'real_current_source', 'short_circuit'])
    e = {'N1': g.label('n1'), 'N2': g.label('n2'), 'id': g.label('id'), 'type': kind}
    if kind == 'resistor':
        e['R'] = g.real('R')
    if kind == 'real_current_source':
        e['I'] = g.real('Ir')
    fault = g.choice('fault', ['none', 'N1', 'N2', 'id', 'type', 'unknown'])
    if fault == 'unknown':
        e['type'] = 'transmogrifier'
    elif fault != 'none':
        del e[fault]
    return e


def well_formed(e):
    return 'N1' in e and 'N2' in e and 'id' in e and 'type' in e and e['type'] in KINDS


@contract('CircuitCalculator.Network.loaders.load_network', props=['C17', 'C19'], name='load_network_any_length_faulty_entry')
class load_network_faulty:
    """An entry without terminals, identifier or kind, or of an unknown kind, anywhere in a list of any length: rejected
    (entries of three representative kinds; the per-kind value faults are covered by the loader-table contracts)."""
    total = True

    def inputs(g):
        return dict(network_dict=g.list('e', faulty_entry))

    def ensures(result, network_dict):
        return {'a faulty entry is rejected': implies(exists(network_dict, lambda e: not well_formed(e)), raised(result))}
