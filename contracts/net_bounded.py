"""Bounded stand-ins for the network solver (C01, C03, C04, C05): FIXED small topologies, ALL element values symbolic.

Each contract runs the real solver (matrix assembly, np.linalg.solve by its assumed contract, get_potential /
get_voltage / get_current / get_power) on a concrete topology with symbolic complex element values and proves the
circuit equations for every value that makes the network well-posed.  The bound is the topology (listed per contract);
within it the result is a proof over all values.  Labelled bounded; not counted as proved in the evidence.

Reference directions (DESIGN sec. 8): i12 = physical current from first to second terminal = get_current, except for
linear (lossy) sources, which report in generator direction: i12 = -get_current.
"""
import numpy as np
from pyvc.spec import contract, eq, implies, iff, raised, is_real, ge, nonsingular
from CircuitCalculator.Network.NodalAnalysis.node_analysis import nodal_analysis_coefficient_matrix
from CircuitCalculator.Network.network import Network, Branch
from CircuitCalculator.Network import elements as elm
from CircuitCalculator.Network import transformers as trf
from CircuitCalculator.Network.NodalAnalysis.bias_point_analysis import nodal_analysis_bias_point_solver, open_circuit_voltage

SOLVER = 'CircuitCalculator.Network.NodalAnalysis.bias_point_analysis.nodal_analysis_bias_point_solver'


def is_linear(e):
    return elm.is_current_source(e) and not elm.is_ideal_current_source(e) and not elm.is_ideal_voltage_source(e)


def i12(sol, net, bid):
    return -sol.get_current(bid) if is_linear(net[bid].element) else sol.get_current(bid)


def kcl(sol, net, node):
    total = 0
    for b in net.branches:
        if b.node1 == node:
            total = total + i12(sol, net, b.id)
        if b.node2 == node:
            total = total - i12(sol, net, b.id)
    return total


def nodes_of(net):
    out = []
    for b in net.branches:
        for n in (b.node1, b.node2):
            if n not in out:
                out.append(n)
    return out


def element_law(sol, net, bid):
    """The branch's own voltage-current relation in terms of v = phi(node1) - phi(node2) and i12."""
    e = net[bid].element
    v = sol.get_voltage(bid)
    i = i12(sol, net, bid)
    if elm.is_ideal_voltage_source(e):
        return eq(v, e.V)
    if elm.is_ideal_current_source(e):
        return eq(i, e.I)          # open circuits included (I = 0)
    if isinstance(e, elm.NortenElement):
        # Thevenin form in the library's orientation: the '+' terminal of a lossy voltage source is node2
        return eq(v, e.Z * i - e.V) if is_linear(e) else eq(v, e.Z * i)
    return eq(i, e.Y * v + e.I) if is_linear(e) else eq(i, e.Y * v)


def circuit_equations(sol, net):
    out = {}
    for n in nodes_of(net):
        out['KCL at ' + n] = eq(kcl(sol, net, n), 0)
    out['reference potential is zero'] = eq(sol.get_potential(net.node_zero_label), 0)
    for b in net.branches:
        out['KVL ' + b.id] = eq(sol.get_voltage(b.id), sol.get_potential(b.node1) - sol.get_potential(b.node2))
        out['law ' + b.id] = element_law(sol, net, b.id)
        out['power ' + b.id] = eq(sol.get_power(b.id), sol.get_voltage(b.id) * np.conj(sol.get_current(b.id)))
    total = 0
    for b in net.branches:
        p = sol.get_power(b.id)
        total = total + (-p if is_linear(b.element) else p)
    out['Tellegen: powers sum to zero (linear sources counted as delivered)'] = eq(total, 0)
    return out


def wellposed_net(net):
    """Well-posed = the circuit equations have a unique solution = the MNA matrix is nonsingular (DESIGN sec. 8, WF)."""
    return nonsingular(nodal_analysis_coefficient_matrix(net))


def topology(name, build, wellposed, props=('C01', 'C05'), use_det=True):
    @contract(SOLVER, props=list(props), name='solve_' + name, bounded='topology ' + name + ' (see contracts/net_bounded.py), all element values symbolic')
    class _c:
        def inputs(g):
            return build(g)

        def requires(**kw):
            return wellposed(**kw) and (wellposed_net(kw['net']) if use_det else True)

        def call(f, **kw):
            return f(kw['net'])

        def ensures(result, **kw):
            return circuit_equations(result, kw['net'])
    return _c


# T1: ideal V source, two impedances (one listed in reverse terminal order), ideal current source into a non-reference node
topology('T1',
         lambda g: dict(net=Network([Branch('a', '0', elm.voltage_source('Vs', g.complex('V'))),
                                     Branch('a', 'b', elm.impedance('Z1', g.complex('Z1'))),
                                     Branch('0', 'b', elm.impedance('Z2', g.complex('Z2'))),
                                     Branch('0', 'b', elm.current_source('Is', g.complex('I')))], '0')),
         lambda net: net['Z1'].element.Z != 0 and net['Z2'].element.Z != 0)

# T2: same circuit, names that sort differently ('10' < '9' < 'N'), reference node in the middle of the alphabet,
#     element ids interleaving kinds, branch list permuted
topology('T2',
         lambda g: dict(net=Network([Branch('9', '10', elm.impedance('a_Z2', g.complex('Z2'))),
                                     Branch('9', '10', elm.current_source('Z_Is', g.complex('I'))),
                                     Branch('N', '10', elm.impedance('m_Z1', g.complex('Z1'))),
                                     Branch('N', '9', elm.voltage_source('b_Vs', g.complex('V')))], '9')),
         lambda net: net['m_Z1'].element.Z != 0 and net['a_Z2'].element.Z != 0,
         props=('C01', 'C03', 'C05'))

# T3: linear (lossy) voltage source, linear current source, admittance and conductor in parallel branches; two nodes
topology('T3',
         lambda g: dict(net=Network([Branch('x', 'y', elm.voltage_source('Vq', g.complex('V'), g.complex('Zq'))),
                                     Branch('y', 'x', elm.current_source('Iq', g.complex('I'), g.complex('Yq'))),
                                     Branch('x', 'y', elm.admittance('Y1', g.complex('Y1'))),
                                     Branch('y', 'x', elm.conductor('G1', g.real('G1')))], 'y')),
         lambda net: net['Vq'].element.Z != 0 and net['Vq'].element.V != 0 and net['Iq'].element.I != 0 and net['Iq'].element.Y != 0
         and net['Y1'].element.Y != 0 and net['G1'].element.Y != 0)

# T4: the reference node touches only an ideal voltage source (a valid network must not fail to solve)
topology('T4',
         lambda g: dict(net=Network([Branch('a', 'gnd', elm.voltage_source('Vs', g.complex('V'))),
                                     Branch('a', 'b', elm.resistor('R1', g.pos('R1'))),
                                     Branch('b', 'a', elm.impedance('Z2', g.complex('Z2'))),
                                     Branch('b', 'a', elm.current_source('Is', g.complex('I')))], 'gnd')),
         lambda net: net['Z2'].element.Z != 0 and net['R1'].element.Z + net['Z2'].element.Z != 0, use_det=False,
         props=('C01', 'C02', 'C04', 'C05'))      # parallel branches (possibly of equal value) between two nodes: also behind the phasor analysis (C02) and superposition (C04)

# T5: three non-reference nodes, open circuit and short circuit branches present, load element
topology('T5',
         lambda g: dict(net=Network([Branch('1', '0', elm.current_source('Is', g.complex('I'))),
                                     Branch('1', '2', elm.short_circuit('S')),
                                     Branch('2', '0', elm.impedance('Z1', g.complex('Z1'))),
                                     Branch('2', '3', elm.open_circuit('O')),
                                     Branch('3', '0', elm.load('L', P=g.pos('P'), V_ref=g.pos('Vr')))], '0')),
         lambda net: net['Z1'].element.Z != 0)


# ---- C04: linearity and superposition on T1 (source zeroing by the library's own operations)


@contract(SOLVER, props=['C04'], name='superposition_T1', bounded='topology T1')
class superposition_T1:
    def inputs(g):
        return dict(V=g.complex('V'), I=g.complex('I'), Z1=g.complex('Z1'), Z2=g.complex('Z2'), k=g.complex('k'))

    def requires(V, I, Z1, Z2, k):
        probe = Network([Branch('a', '0', elm.voltage_source('Vs', V)), Branch('a', 'b', elm.impedance('Z1', Z1)),
                         Branch('0', 'b', elm.impedance('Z2', Z2)), Branch('0', 'b', elm.current_source('Is', I))], '0')
        return Z1 != 0 and Z2 != 0 and V != 0 and I != 0 and k != 0 and wellposed_net(probe)

    def call(f, V, I, Z1, Z2, k):
        def net(v, i):
            return Network([Branch('a', '0', elm.voltage_source('Vs', v)), Branch('a', 'b', elm.impedance('Z1', Z1)),
                            Branch('0', 'b', elm.impedance('Z2', Z2)), Branch('0', 'b', elm.current_source('Is', i))], '0')
        full = net(V, I)
        only_v = trf.open_circuitify_current_sources(full)
        only_i = trf.short_circuitify_voltage_sources(full)
        dead = trf.short_circuitify_voltage_sources(only_v)
        return (full, f(full), f(only_v), f(only_i), f(net(k * V, k * I)), f(dead), only_v, only_i)

    def ensures(result, V, I, Z1, Z2, k):
        full, s, sv, si, sk, s0, only_v, only_i = result
        out = {}
        for n in ('a', 'b', '0'):
            out['superposition phi ' + n] = eq(s.get_potential(n), sv.get_potential(n) + si.get_potential(n))
            out['scaling phi ' + n] = eq(sk.get_potential(n), k * s.get_potential(n))
            out['all sources off: phi ' + n] = eq(s0.get_potential(n), 0)
        for b in ('Vs', 'Z1', 'Z2', 'Is'):
            out['superposition v ' + b] = eq(s.get_voltage(b), sv.get_voltage(b) + si.get_voltage(b))
            out['superposition i ' + b] = eq(i12(s, full, b), i12(sv, only_v, b) + i12(si, only_i, b))
            out['scaling i ' + b] = eq(sk.get_current(b), k * s.get_current(b))
            out['scaling p ' + b] = eq(sk.get_power(b), (k.real**2 + k.imag**2) * s.get_power(b))
            out['all sources off: i ' + b] = eq(s0.get_current(b), 0)
        return out


@contract(SOLVER, props=['C04'], name='superposition_T3', bounded='topology T3 (two lossy sources)')
class superposition_T3:
    def inputs(g):
        return dict(V=g.complex('V'), Zq=g.complex('Zq'), I=g.complex('I'), Yq=g.complex('Yq'), Y1=g.complex('Y1'))

    def requires(V, Zq, I, Yq, Y1):
        probe = Network([Branch('x', 'y', elm.voltage_source('Vq', V, Zq)), Branch('y', 'x', elm.current_source('Iq', I, Yq)),
                         Branch('x', 'y', elm.admittance('Y1', Y1))], 'y')
        return Zq != 0 and V != 0 and I != 0 and Yq != 0 and Y1 != 0 and wellposed_net(probe)

    def call(f, V, Zq, I, Yq, Y1):
        full = Network([Branch('x', 'y', elm.voltage_source('Vq', V, Zq)), Branch('y', 'x', elm.current_source('Iq', I, Yq)),
                        Branch('x', 'y', elm.admittance('Y1', Y1))], 'y')
        keep_v = trf.open_circuitify_current_sources(full, keep=[full['Vq'].element])
        only_v = trf.open_circuitify_current_sources(full, keep=[full['Vq'].element])
        only_i = trf.short_circuitify_voltage_sources(trf.open_circuitify_current_sources(full, keep=[full['Iq'].element]), keep=[full['Iq'].element])
        return (full, f(full), f(only_v), f(only_i), only_v, only_i)

    def ensures(result, V, Zq, I, Yq, Y1):
        full, s, sv, si, only_v, only_i = result
        out = {'zeroing keeps ids and terminals': [b.id for b in only_v.branches] == ['Vq', 'Iq', 'Y1'] and only_v.branches[1].node1 == 'y' and only_v.branches[1].node2 == 'x',
               'zeroed current source keeps its internal admittance': eq(only_v['Iq'].element.Y, Yq) and eq(only_v['Iq'].element.I, 0),
               'zeroed voltage source keeps its internal impedance': eq(only_i['Vq'].element.Z, Zq) and eq(only_i['Vq'].element.V, 0)}
        for n in ('x', 'y'):
            out['superposition phi ' + n] = eq(s.get_potential(n), sv.get_potential(n) + si.get_potential(n))
        for b in ('Vq', 'Iq', 'Y1'):
            out['superposition v ' + b] = eq(s.get_voltage(b), sv.get_voltage(b) + si.get_voltage(b))
            out['superposition i12 ' + b] = eq(i12(s, full, b), i12(sv, only_v, b) + i12(si, only_i, b))
        return out


# ---- C03: renaming, permutation, terminal reversal, change of reference node


@contract(SOLVER, props=['C03'], name='equivariance_T1', bounded='topology T1 against a renamed / permuted / reversed / re-referenced copy')
class equivariance_T1:
    def inputs(g):
        return dict(V=g.complex('V'), I=g.complex('I'), Z1=g.complex('Z1'), Z2=g.complex('Z2'))

    def requires(V, I, Z1, Z2):
        A = Network([Branch('a', '0', elm.voltage_source('Vs', V)), Branch('a', 'b', elm.impedance('Z1', Z1)),
                     Branch('0', 'b', elm.impedance('Z2', Z2)), Branch('0', 'b', elm.current_source('Is', I))], '0')
        B = Network([Branch('5', 'M', elm.current_source('A_is', -I)), Branch('M', '5', elm.impedance('z2', Z2)),
                     Branch('M', 'z', elm.voltage_source('q_vs', -V)), Branch('z', '5', elm.impedance('b1', Z1))], '5')
        return Z1 != 0 and Z2 != 0 and wellposed_net(A) and wellposed_net(B)

    def call(f, V, I, Z1, Z2):
        A = Network([Branch('a', '0', elm.voltage_source('Vs', V)), Branch('a', 'b', elm.impedance('Z1', Z1)),
                     Branch('0', 'b', elm.impedance('Z2', Z2)), Branch('0', 'b', elm.current_source('Is', I))], '0')
        # a -> 'z', b -> '5', 0 -> 'M'; ids renamed so that their order changes; list permuted; Vs and Is reversed with negated value
        B = Network([Branch('5', 'M', elm.current_source('A_is', -I)), Branch('M', '5', elm.impedance('z2', Z2)),
                     Branch('M', 'z', elm.voltage_source('q_vs', -V)), Branch('z', '5', elm.impedance('b1', Z1))], '5')
        return (f(A), f(B))

    def ensures(result, V, I, Z1, Z2):
        sa, sb = result
        shift = sb.get_potential('M')        # B is referenced to the image of 'b'
        return {
            'potential differences a-0': eq(sa.get_potential('a') - sa.get_potential('0'), sb.get_potential('z') - sb.get_potential('M')),
            'potential differences b-0': eq(sa.get_potential('b') - sa.get_potential('0'), sb.get_potential('5') - sb.get_potential('M')),
            'common shift': eq(sb.get_potential('5'), 0),
            'Z1 current': eq(sa.get_current('Z1'), sb.get_current('b1')),
            'Z2 current': eq(sa.get_current('Z2'), sb.get_current('z2')),
            'reversed Vs: voltage and current flip': eq(sa.get_voltage('Vs'), -sb.get_voltage('q_vs')) and eq(sa.get_current('Vs'), -sb.get_current('q_vs')),
            'reversed Is: voltage and current flip': eq(sa.get_voltage('Is'), -sb.get_voltage('A_is')) and eq(sa.get_current('Is'), -sb.get_current('A_is')),
            'powers': eq(sa.get_power('Vs'), sb.get_power('q_vs')) and eq(sa.get_power('Z1'), sb.get_power('b1')) and eq(sa.get_power('Is'), sb.get_power('A_is')),
        }


@contract('CircuitCalculator.Network.NodalAnalysis.bias_point_analysis.open_circuit_voltage', props=['C01', 'C06'], name='open_circuit_voltage_T1', bounded='topology T1')
class ocv_T1:
    def inputs(g):
        return dict(V=g.complex('V'), I=g.complex('I'), Z1=g.complex('Z1'), Z2=g.complex('Z2'))

    def requires(V, I, Z1, Z2):
        probe = Network([Branch('a', '0', elm.voltage_source('Vs', V)), Branch('a', 'b', elm.impedance('Z1', Z1)),
                         Branch('0', 'b', elm.impedance('Z2', Z2)), Branch('0', 'b', elm.current_source('Is', I))], '0')
        return Z1 != 0 and Z2 != 0 and wellposed_net(probe)

    def call(f, V, I, Z1, Z2):
        net = Network([Branch('a', '0', elm.voltage_source('Vs', V)), Branch('a', 'b', elm.impedance('Z1', Z1)),
                       Branch('0', 'b', elm.impedance('Z2', Z2)), Branch('0', 'b', elm.current_source('Is', I))], '0')
        s = nodal_analysis_bias_point_solver(net)
        return (f(net, 'a', 'b'), f(net, 'b', 'a'), f(net, 'b', 'b'), f(net, 'b', '0'), s.get_potential('a'), s.get_potential('b'), f(net, '0', 'b'))

    def ensures(result, V, I, Z1, Z2):
        ab, ba, bb, b0, pa, pb, zero_b = result
        return {'difference of potentials': eq(ab, pa - pb), 'antisymmetric': eq(ba, -ab), 'same node': eq(bb, 0), 'to reference': eq(b0, pb),
                'from the reference node (antisymmetric there too)': eq(zero_b, -pb),
                'hand value': eq(pb * (Z1 + Z2), (V * Z2 + I * Z1 * Z2))}


# T6: two ideal voltage sources and two ideal current sources listed in NON-alphabetical order, one voltage source with its
#     first terminal on the reference node
topology('T6',
         lambda g: dict(net=Network([Branch('0', 'a', elm.voltage_source('Vs2', g.complex('V2'))),
                                     Branch('b', 'a', elm.voltage_source('Vs1', g.complex('V1'))),
                                     Branch('b', '0', elm.impedance('Z1', g.complex('Z1'))),
                                     Branch('b', '0', elm.current_source('Ib', g.complex('Ib'))),
                                     Branch('0', 'b', elm.current_source('Ia', g.complex('Ia')))], '0')),
         lambda net: net['Z1'].element.Z != 0 and net['Ia'].element.I != 0 and net['Ib'].element.I != 0,
         props=('C01', 'C02', 'C03', 'C05'))

# T8: T6 with MIXED-CASE identifiers: code-point order ('Ib' < 'Vb' < 'ia' < 'va') differs from case-insensitive order
#     ('ia' < 'Ib', 'va' < 'Vb'), so two sites that order sources differently from each other attach values to the wrong source
#     (seeded change C01-11: case-folding mappers + a right-hand side sorted by plain id, each harmless alone)
topology('T8',
         lambda g: dict(net=Network([Branch('0', 'a', elm.voltage_source('va', g.complex('V2'))),
                                     Branch('b', 'a', elm.voltage_source('Vb', g.complex('V1'))),
                                     Branch('b', '0', elm.impedance('Z1', g.complex('Z1'))),
                                     Branch('b', '0', elm.current_source('ia', g.complex('Ib'))),
                                     Branch('0', 'b', elm.current_source('Ib', g.complex('Ia')))], '0')),
         lambda net: net['Z1'].element.Z != 0 and net['ia'].element.I != 0 and net['Ib'].element.I != 0,
         props=('C01', 'C03'))

# T7: lossy current source and lossy voltage source with BOTH terminals on non-reference nodes
topology('T7',
         lambda g: dict(net=Network([Branch('1', '0', elm.resistor('R1', g.pos('R1'))),
                                     Branch('2', '0', elm.resistor('R2', g.pos('R2'))),
                                     Branch('1', '2', elm.current_source('Iq', g.complex('I'), g.complex('Yq'))),
                                     Branch('2', '1', elm.voltage_source('Vq', g.complex('V'), g.complex('Zq')))], '0')),
         lambda net: net['Iq'].element.I != 0 and net['Iq'].element.Y != 0 and net['Vq'].element.V != 0 and net['Vq'].element.Z != 0)


@contract('CircuitCalculator.Network.NodalAnalysis.bias_point_analysis.open_circuit_voltage', props=['C01', 'C06', 'C04'], name='open_circuit_voltage_two_current_sources',
          bounded='two current sources listed in NON-alphabetical order feeding different nodes of an admittance triangle')
class ocv_two_current_sources:
    def inputs(g):
        return dict(net=Network([Branch('0', 'a', elm.current_source('Iq2', g.complex('I2'))), Branch('0', 'b', elm.current_source('Iq1', g.complex('I1'))),
                                 Branch('a', '0', elm.admittance('Y1', g.complex('Y1'))), Branch('b', '0', elm.admittance('Y2', g.complex('Y2'))),
                                 Branch('a', 'b', elm.admittance('Y3', g.complex('Y3')))], '0'))

    def requires(net):
        return wellposed_net(net) and net['Y1'].element.Y != 0 and net['Y2'].element.Y != 0 and net['Y3'].element.Y != 0

    def call(f, net):
        return (f(net, 'a', '0'), f(net, 'b', '0'), f(net, 'a', 'b'))

    def ensures(result, net):
        pa, pb, ab = result
        Y1, Y2, Y3 = net['Y1'].element.Y, net['Y2'].element.Y, net['Y3'].element.Y
        return {'currents balance at a (Iq2 feeds a)': eq(pa * (Y1 + Y3) - pb * Y3, net['Iq2'].element.I),
                'currents balance at b (Iq1 feeds b)': eq(pb * (Y2 + Y3) - pa * Y3, net['Iq1'].element.I),
                'difference of the two': eq(ab, pa - pb)}
