"""Contracts for CircuitCalculator/Circuit/components.py (DESIGN A.5): every constructor
   raises ValueError  <=>  one of its parameters among R, G, C, L, w, P, V_ref is negative
   (periodic sources also reject an unknown wavetype), and otherwise returns the Component with its own type tag,
   the given id and nodes and a value dictionary with exactly the documented keys and the given values."""
from pyvc.spec import contract, eq, implies, iff, raised
from CircuitCalculator.Circuit import components as ccp
from CircuitCalculator.SignalProcessing.periodic_functions import UnknownWavetype

WAVETYPES = ['const', 'cos', 'sin', 'rect', 'tri', 'saw']
CHECKED = ['R', 'G', 'C', 'L', 'w', 'P', 'V_ref']


CTORS = {}


def make(fname, tag, params, value):
    checked = [p for p in params if p in CHECKED]
    CTORS[fname] = (tag, params, value)

    @contract('CircuitCalculator.Circuit.components.' + fname, props=['C07', 'C19'], name='ctor_' + fname)
    class _c:
        total = True

        def inputs(g):
            d = {'id': g.label('id'), 'nodes': (g.label('n1'), g.label('n2'))}
            for p, kind in params.items():
                if kind == 'complex':
                    d[p] = g.complex(p)
                elif kind == 'label':
                    d[p] = g.label(p)
                else:
                    d[p] = g.real(p)
            return d

        def ensures(result, **kw):
            bad = any([kw[p] < 0 for p in checked])
            if 'wavetype' in params:
                bad = bad or not any([kw['wavetype'] == t for t in WAVETYPES])
            expected = ccp.Component(type=tag, id=kw['id'], nodes=kw['nodes'], value=value(**kw))
            return {
                'rejected iff a checked parameter is negative': iff(raised(result), bad),
                'rejection is typed': implies(raised(result), raised(result, ValueError, UnknownWavetype)),
                'stored unaltered': implies(not raised(result), lambda: eq(result, expected)),
            }
    return _c


make('resistor', 'resistor', {'R': 'real'}, lambda id, nodes, R: {'R': R})
make('conductance', 'conductance', {'G': 'real'}, lambda id, nodes, G: {'G': G})
make('capacitor', 'capacitor', {'C': 'real'}, lambda id, nodes, C: {'C': C})
make('inductance', 'inductance', {'L': 'real'}, lambda id, nodes, L: {'L': L})
make('impedance', 'impedance', {'Z': 'complex'}, lambda id, nodes, Z: {'R': Z.real, 'X': Z.imag})
make('admittance', 'admittance', {'Y': 'complex'}, lambda id, nodes, Y: {'G': Y.real, 'B': Y.imag})
make('dc_voltage_source', 'dc_voltage_source', {'V': 'real', 'R': 'real'}, lambda id, nodes, V, R: {'V': V, 'R': R, 'w': 0, 'phi': 0})
make('ac_voltage_source', 'ac_voltage_source', {'V': 'real', 'R': 'real', 'w': 'real', 'phi': 'real'},
     lambda id, nodes, V, R, w, phi: {'V': V, 'R': R, 'w': w, 'phi': phi})
make('complex_voltage_source', 'complex_voltage_source', {'V': 'complex', 'Z': 'complex'},
     lambda id, nodes, V, Z: {'V_real': V.real, 'V_imag': V.imag, 'R': Z.real, 'X': Z.imag})
make('periodic_voltage_source', 'periodic_voltage_source', {'wavetype': 'label', 'V': 'real', 'w': 'real', 'phi': 'real', 'R': 'real'},
     lambda id, nodes, wavetype, V, w, phi, R: {'wavetype': wavetype, 'V': V, 'w': w, 'phi': phi, 'R': R})
make('dc_current_source', 'dc_current_source', {'I': 'real', 'G': 'real'}, lambda id, nodes, I, G: {'I': I, 'G': G, 'w': 0, 'phi': 0})
make('ac_current_source', 'ac_current_source', {'I': 'real', 'G': 'real', 'w': 'real', 'phi': 'real'},
     lambda id, nodes, I, G, w, phi: {'I': I, 'G': G, 'w': w, 'phi': phi})
make('complex_current_source', 'complex_current_source', {'I': 'complex', 'Y': 'complex'},
     lambda id, nodes, I, Y: {'I_real': I.real, 'I_imag': I.imag, 'G': Y.real, 'B': Y.imag})
make('periodic_current_source', 'periodic_current_source', {'wavetype': 'label', 'I': 'real', 'w': 'real', 'phi': 'real', 'G': 'real'},
     lambda id, nodes, wavetype, I, w, phi, G: {'wavetype': wavetype, 'I': I, 'w': w, 'phi': phi, 'G': G})
make('lamp', 'lamp', {'P': 'real', 'V_ref': 'real'}, lambda id, nodes, P, V_ref: {'P': P, 'V_ref': V_ref})
make('resistive_load', 'resistive_load', {'P': 'real', 'V_ref': 'real'}, lambda id, nodes, P, V_ref: {'P': P, 'V_ref': V_ref})
make('short_circuit', 'short_circuit', {}, lambda id, nodes: {})


@contract('CircuitCalculator.Circuit.components.ground', props=['C07', 'C19'])
class ctor_ground:
    def inputs(g):
        return dict(id=g.label('id'), nodes=(g.label('n1'),))

    def ensures(result, id, nodes):
        return {'stored unaltered': eq(result, ccp.Component(type='ground', id=id, nodes=nodes, value={}))}


@contract('CircuitCalculator.Circuit.components.is_active', props=['C09'])
class is_active:
    def inputs(g):
        has_w = g.bool('has_w')
        v = {'V': g.real('V'), 'w': g.real('w')} if has_w else {'R': g.real('R')}
        return dict(component=ccp.Component(type=g.label('type'), id=g.label('id'), nodes=(g.label('n1'), g.label('n2')), value=v))

    def ensures(result, component):
        return {'def': iff(result, 'w' in component.value)}
