"""Contracts for CircuitCalculator/Network/elements.py (DESIGN A.1)."""
import numpy as np
from pyvc.spec import contract, eq, implies, iff
from CircuitCalculator.Network import elements as elm

ALL = ['C01', 'C02', 'C04', 'C05', 'C06', 'C07', 'C16', 'C17']


@contract('CircuitCalculator.Network.elements.NortenElement.Y', props=ALL)
class norten_Y:
    def inputs(g):
        return dict(e=elm.NortenElement(name=g.label('name'), type=g.label('type'), Z=g.complex('Z'), V=g.complex('V')))

    def call(f, e):
        return e.Y

    def ensures(result, e):
        return {
            'nonzero': implies(e.Z != 0, eq(result * e.Z, 1)),
            'zero': implies(e.Z == 0, not np.isfinite(result)),
            'finite': implies(e.Z != 0, np.isfinite(result)),
        }


@contract('CircuitCalculator.Network.elements.NortenElement.I', props=ALL)
class norten_I:
    def inputs(g):
        return dict(e=elm.NortenElement(name=g.label('name'), type=g.label('type'), Z=g.complex('Z'), V=g.complex('V')))

    def call(f, e):
        return e.I

    def ensures(result, e):
        return {
            'nonzero': implies(e.Z != 0, eq(result * e.Z, e.V)),
            'zero': implies(e.Z == 0, np.isnan(result)),
        }


@contract('CircuitCalculator.Network.elements.TheveninElement.Z', props=ALL)
class thevenin_Z:
    def inputs(g):
        return dict(e=elm.TheveninElement(name=g.label('name'), type=g.label('type'), Y=g.complex('Y'), I=g.complex('I')))

    def call(f, e):
        return e.Z

    def ensures(result, e):
        return {
            'nonzero': implies(e.Y != 0, eq(result * e.Y, 1)),
            'zero': implies(e.Y == 0, not np.isfinite(result)),
            'finite': implies(e.Y != 0, np.isfinite(result)),
        }


@contract('CircuitCalculator.Network.elements.TheveninElement.V', props=ALL)
class thevenin_V:
    def inputs(g):
        return dict(e=elm.TheveninElement(name=g.label('name'), type=g.label('type'), Y=g.complex('Y'), I=g.complex('I')))

    def call(f, e):
        return e.V

    def ensures(result, e):
        return {
            'nonzero': implies(e.Y != 0, eq(result * e.Y, e.I)),
            'zero': implies(e.Y == 0, np.isnan(result)),
        }


# ---- constructors: the record with exactly the given name, the kind's tag, the given value, source value 0 or as given


@contract('CircuitCalculator.Network.elements.impedance', props=['C01', 'C04', 'C07', 'C17', 'C19'])
class impedance:
    def inputs(g):
        return dict(name=g.label('name'), Z=g.complex('Z'))

    def ensures(result, name, Z):
        return {'name': result.name == name, 'Z': eq(result.Z, Z), 'V': eq(result.V, 0), 'type': result.type == 'impedance',
                'passive': not elm.is_active(result)}


@contract('CircuitCalculator.Network.elements.admittance', props=['C01', 'C04', 'C07', 'C17', 'C19'])
class admittance:
    def inputs(g):
        return dict(name=g.label('name'), Y=g.complex('Y'))

    def ensures(result, name, Y):
        return {'name': result.name == name, 'Y': eq(result.Y, Y), 'I': eq(result.I, 0), 'type': result.type == 'admittance',
                'passive': not elm.is_active(result)}


@contract('CircuitCalculator.Network.elements.resistor', props=['C01', 'C07', 'C17', 'C19'])
class resistor:
    def inputs(g):
        return dict(name=g.label('name'), R=g.real('R'))

    def ensures(result, name, R):
        return {'name': result.name == name, 'Z': eq(result.Z, R), 'V': eq(result.V, 0), 'type': result.type == 'resistor'}


@contract('CircuitCalculator.Network.elements.conductor', props=['C01', 'C07', 'C17', 'C19'])
class conductor:
    def inputs(g):
        return dict(name=g.label('name'), G=g.real('G'))

    def ensures(result, name, G):
        return {'name': result.name == name, 'Y': eq(result.Y, G), 'I': eq(result.I, 0), 'type': result.type == 'conductor'}


@contract('CircuitCalculator.Network.elements.voltage_source', props=['C01', 'C07', 'C17', 'C19'])
class voltage_source:
    def inputs(g):
        return dict(name=g.label('name'), V=g.complex('V'), Z=g.complex('Z'))

    def ensures(result, name, V, Z):
        return {'name': result.name == name, 'Z': eq(result.Z, Z), 'V': eq(result.V, V), 'type': result.type == 'voltage_source'}


@contract('CircuitCalculator.Network.elements.voltage_source', props=['C01', 'C07', 'C17', 'C19'])
class voltage_source_ideal:
    def inputs(g):
        return dict(name=g.label('name'), V=g.complex('V'))

    def ensures(result, name, V):
        return {'name': result.name == name, 'Z': eq(result.Z, 0), 'V': eq(result.V, V), 'ideal': elm.is_ideal_voltage_source(result)}


@contract('CircuitCalculator.Network.elements.current_source', props=['C01', 'C07', 'C17', 'C19'])
class current_source:
    def inputs(g):
        return dict(name=g.label('name'), I=g.complex('I'), Y=g.complex('Y'))

    def ensures(result, name, I, Y):
        return {'name': result.name == name, 'Y': eq(result.Y, Y), 'I': eq(result.I, I), 'type': result.type == 'current_source'}


@contract('CircuitCalculator.Network.elements.current_source', props=['C01', 'C07', 'C17', 'C19'])
class current_source_ideal:
    def inputs(g):
        return dict(name=g.label('name'), I=g.complex('I'))

    def ensures(result, name, I):
        return {'name': result.name == name, 'Y': eq(result.Y, 0), 'I': eq(result.I, I), 'ideal': elm.is_ideal_current_source(result)}


@contract('CircuitCalculator.Network.elements.open_circuit', props=['C01', 'C07', 'C16', 'C17'])
class open_circuit:
    def inputs(g):
        return dict(name=g.label('name'))

    def ensures(result, name):
        return {'name': result.name == name, 'Y': eq(result.Y, 0), 'I': eq(result.I, 0), 'open': elm.is_open_circuit(result),
                'not short': not elm.is_short_circuit(result)}


@contract('CircuitCalculator.Network.elements.short_circuit', props=['C01', 'C07', 'C16', 'C17'])
class short_circuit:
    def inputs(g):
        return dict(name=g.label('name'))

    def ensures(result, name):
        return {'name': result.name == name, 'Z': eq(result.Z, 0), 'V': eq(result.V, 0), 'short': elm.is_short_circuit(result),
                'not open': not elm.is_open_circuit(result)}


# ---- load: some exception <=> not exactly one of V_ref, I_ref is positive (C19 wording); else the rated immittance


@contract('CircuitCalculator.Network.elements.load', props=['C07', 'C19'])
class load:
    total = True

    def inputs(g):
        return dict(name=g.label('name'), P=g.real('P'), V_ref=g.real('V_ref'), I_ref=g.real('I_ref'), Q=g.real('Q'))

    def ensures(result, name, P, V_ref, I_ref, Q):
        from pyvc.spec import raised
        exactly_one = (V_ref > 0) != (I_ref > 0)
        ok = not raised(result)
        return {
            'rejected iff not exactly one reference': iff(raised(result), not exactly_one),
            'typed': implies(raised(result), raised(result, AttributeError, ValueError, ZeroDivisionError)),
            'by voltage': implies(ok and V_ref > 0, lambda: eq(result.Y * V_ref**2, complex(P, Q)) and eq(result.I, 0) and result.name == name),
            'by current': implies(ok and not V_ref > 0, lambda: eq(result.Z * I_ref**2, complex(P, Q)) and eq(result.V, 0) and result.name == name),
        }


@contract('CircuitCalculator.Network.elements.load', props=['C07', 'C19'])
class load_by_voltage_default:
    """The call shape used by the circuit layer: load(id, P, V_ref)."""
    total = True

    def inputs(g):
        return dict(name=g.label('name'), P=g.real('P'), V_ref=g.real('V_ref'))

    def call(f, name, P, V_ref):
        return f(name, P, V_ref)

    def ensures(result, name, P, V_ref):
        from pyvc.spec import raised
        return {
            'rejected iff V_ref <= 0': iff(raised(result), V_ref <= 0),
            'Y': implies(V_ref > 0, lambda: eq(result.Y * V_ref**2, P) and eq(result.I, 0) and result.name == name),
        }


# ---- value helpers


@contract('CircuitCalculator.Network.elements.impedance_value', props=['C02', 'C07'])
class impedance_value:
    def inputs(g):
        return dict(R=g.real('R'), X=g.real('X'), absZ=g.real('absZ'), phi=g.real('phi'), degree=g.bool('degree'))

    def ensures(result, R, X, absZ, phi, degree):
        ph = phi * np.pi / 180 if degree else phi
        return {
            'polar': implies(absZ > 0, eq(result, absZ * complex(np.cos(ph), np.sin(ph)))),
            'cartesian': implies(not absZ > 0, eq(result, complex(R, X))),
        }


@contract('CircuitCalculator.Network.elements.admittance_value', props=['C02', 'C07'])
class admittance_value:
    def inputs(g):
        return dict(G=g.real('G'), B=g.real('B'), absY=g.real('absY'), phi=g.real('phi'), degree=g.bool('degree'))

    def ensures(result, G, B, absY, phi, degree):
        ph = phi * np.pi / 180 if degree else phi
        return {
            'polar': implies(absY > 0, eq(result, absY * complex(np.cos(ph), np.sin(ph)))),
            'cartesian': implies(not absY > 0, eq(result, complex(G, B))),
        }


@contract('CircuitCalculator.Network.elements.impedance_value', props=['C02', 'C07'])
class impedance_value_defaults:
    """Call shapes used by the translators: only X (inductor)."""
    def inputs(g):
        return dict(X=g.real('X'))

    def ensures(result, X):
        return {'jX': eq(result, complex(0, X))}


@contract('CircuitCalculator.Network.elements.admittance_value', props=['C02', 'C07'])
class admittance_value_defaults:
    def inputs(g):
        return dict(B=g.real('B'))

    def ensures(result, B):
        return {'jB': eq(result, complex(0, B))}


@contract('CircuitCalculator.Network.elements.complex_value', props=['C02', 'C07'])
class complex_value:
    def inputs(g):
        return dict(X=g.real('X'), phi=g.real('phi'), rms=g.bool('rms'), deg=g.bool('deg'))

    def ensures(result, X, phi, rms, deg):
        amp = X * np.sqrt(2) if rms else X
        ph = phi * np.pi / 180 if deg else phi
        return {'value': eq(result, amp * complex(np.cos(ph), np.sin(ph)))}


@contract('CircuitCalculator.Network.elements.complex_value', props=['C02', 'C07'])
class complex_value_defaults:
    def inputs(g):
        return dict(X=g.real('X'))

    def ensures(result, X):
        return {'real': eq(result, X)}


# ---- predicates: exactly the booleans documented


def _either(g):
    if g.bool('norten'):
        return elm.NortenElement(name=g.label('name'), type=g.label('type'), Z=g.complex('Z'), V=g.complex('V'))
    return elm.TheveninElement(name=g.label('name'), type=g.label('type'), Y=g.complex('Y'), I=g.complex('I'))


@contract('CircuitCalculator.Network.elements.is_voltage_source', props=['C01', 'C04', 'C16'])
class is_voltage_source:
    def inputs(g):
        return dict(element=_either(g))

    def ensures(result, element):
        return {'def': iff(result, not eq(element.V, 0) and not np.isnan(element.V))}


@contract('CircuitCalculator.Network.elements.is_current_source', props=['C01', 'C04', 'C16'])
class is_current_source:
    def inputs(g):
        return dict(element=_either(g))

    def ensures(result, element):
        return {'def': iff(result, not eq(element.I, 0) and not np.isnan(element.I))}


@contract('CircuitCalculator.Network.elements.is_ideal_voltage_source', props=['C01', 'C04', 'C06', 'C16'])
class is_ideal_voltage_source:
    def inputs(g):
        return dict(element=_either(g))

    def ensures(result, element):
        return {'def': iff(result, eq(element.Z, 0)), 'iff infinite admittance': iff(result, not np.isfinite(element.Y))}


@contract('CircuitCalculator.Network.elements.is_ideal_current_source', props=['C01', 'C04', 'C16'])
class is_ideal_current_source:
    def inputs(g):
        return dict(element=_either(g))

    def ensures(result, element):
        return {'def': iff(result, eq(element.Y, 0))}


@contract('CircuitCalculator.Network.elements.is_short_circuit', props=['C01', 'C16'])
class is_short_circuit:
    def inputs(g):
        return dict(element=_either(g))

    def ensures(result, element):
        return {'def': iff(result, eq(element.Z, 0) and eq(element.V, 0))}


@contract('CircuitCalculator.Network.elements.is_open_circuit', props=['C01', 'C16'])
class is_open_circuit:
    def inputs(g):
        return dict(element=_either(g))

    def ensures(result, element):
        return {'def': iff(result, eq(element.Y, 0) and eq(element.I, 0))}


@contract('CircuitCalculator.Network.elements.is_active', props=['C04', 'C16'])
class is_active:
    def inputs(g):
        return dict(element=_either(g))

    def ensures(result, element):
        return {'def': iff(result, elm.is_voltage_source(element) or elm.is_current_source(element))}
