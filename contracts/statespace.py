"""Bounded stand-ins for the state-space model (C10, C11, C12, C03): fixed small RLC circuits, all element values symbolic.

For each circuit the real state_space_model() is executed symbolically (matrix assembly, np.linalg.inv by its assumed
contract) and its transfer function C (jw I - A)^-1 B + D is compared, for a symbolic w, with the phasor response of the
same circuit to each source alone computed by the real ComplexSolution (C02).  Labelled bounded."""
import numpy as np
from pyvc.spec import contract, eq, implies, iff, raised, ge, balanced
from CircuitCalculator.Circuit import components as ccp
from CircuitCalculator.Circuit.circuit import Circuit, transform_circuit
from CircuitCalculator.Circuit.state_space_model import state_space_model
from CircuitCalculator.Circuit.solution import ComplexSolution, DCSolution
from CircuitCalculator.Network.NodalAnalysis.state_space_model import nodal_state_space_model


def transfer(ssm, w):
    n = ssm.A.shape[0]
    if n == 0:
        return ssm.D
    return ssm.C @ np.linalg.inv(1j * w * np.eye(n) - ssm.A) @ ssm.B + ssm.D


def published_sources(circuit):
    """The model's own published source order."""
    C_values = {c.id: float(c.value['C']) for c in circuit.components if c.type == 'capacitor'}
    L_values = {c.id: float(c.value['L']) for c in circuit.components if c.type == 'inductance'}
    return nodal_state_space_model(transform_circuit(circuit, w=0), c_values=C_values, l_values=L_values).sources


def case(name, build, sources, nodes, elements, props=('C10', 'C03')):
    """build(g, amplitudes, w) -> Circuit with the given source amplitudes; sources of amplitude a are ac sources at w."""
    @contract('CircuitCalculator.Circuit.state_space_model.state_space_model', props=list(props), name='realisation_' + name,
              bounded='circuit ' + name + ' (contracts/statespace.py), all element values and the frequency symbolic')
    class _c:
        def inputs(g):
            vals = build.values(g)
            return dict(vals=vals, w=g.real('w', lo=0))

        def requires(vals, w):
            return w > 0

        def call(f, vals, w):
            dc = build.circuit(vals, {s: 1 for s in sources}, 0)
            ssm = f(dc, potential_nodes=list(nodes), voltage_ids=list(elements), current_ids=list(elements))
            order = published_sources(dc)
            dc0 = build.circuit(vals, {s: 0 for s in sources}, 0)          # the same circuit with every source switched to zero
            ssm0 = f(dc0, potential_nodes=list(nodes), voltage_ids=list(elements), current_ids=list(elements))
            order0 = published_sources(dc0)
            ref = {}
            for s in sources:
                amps = {k: (1 if k == s else 0) for k in sources}
                ref[s] = ComplexSolution(build.circuit(vals, amps, w), w=w, peak_values=True)
            dcs = {}
            for s in sources:
                amps = {k: (1 if k == s else 0) for k in sources}
                dcs[s] = DCSolution(build.circuit(vals, amps, 0))
            return (ssm, order, ref, dcs, ssm0, order0)

        def ensures(result, vals, w):
            ssm, order, ref, dcs, ssm0, order0 = result
            H = transfer(ssm, w)
            H0 = transfer(ssm, 0)
            out = {'state dimension = capacitors + inductors': ssm.A.shape[0] == build.n_states,
                   'published sources': sorted(order) == sorted(sources) and ssm.B.shape[1] == len(sources),
                   'with every source set to zero the published input list still matches the input columns (same A; each remaining input keeps its column)':
                       len(order0) == ssm0.B.shape[1] and len(order0) == ssm0.D.shape[1] and all([s in order for s in order0]) and eq(ssm0.A, ssm.A)
                       and all([eq(ssm0.B[:, j], ssm.B[:, order.index(s)]) and eq(ssm0.D[:, j], ssm.D[:, order.index(s)]) for j, s in enumerate(order0)])}
            for j, s in enumerate(order):
                for r, n in enumerate(nodes):
                    out['potential ' + n + ' <- ' + s] = eq(H[r, j], ref[s].get_potential(n))
                    out['dc gain potential ' + n + ' <- ' + s] = eq(H0[r, j], dcs[s].get_potential(n))
                for r, e in enumerate(elements):
                    out['voltage ' + e + ' <- ' + s] = eq(H[len(nodes) + r, j], ref[s].get_voltage(e))
                    out['current ' + e + ' <- ' + s] = eq(H[len(nodes) + len(elements) + r, j], ref[s].get_current(e))
            return out
    return _c


class RC:
    n_states = 1

    def values(g):
        return dict(R=g.pos('R'), C=g.pos('C'))

    def circuit(v, amps, w):
        return Circuit([ccp.ac_voltage_source('Vs', ('a', '0'), V=amps['Vs'], w=w), ccp.resistor('R1', ('a', 'b'), v['R']),
                        ccp.capacitor('C1', ('b', '0'), v['C']), ccp.ground(nodes=('0',))])


case('RC', RC, ['Vs'], ['a', 'b'], ['R1', 'C1', 'Vs'])


class RLC:
    n_states = 2

    def values(g):
        return dict(R=g.pos('R'), L=g.pos('L'), C=g.pos('C'))

    def circuit(v, amps, w):
        return Circuit([ccp.ac_voltage_source('Vs', ('a', '0'), V=amps['Vs'], w=w), ccp.resistor('R1', ('a', 'b'), v['R']),
                        ccp.inductance('L1', ('b', 'c'), v['L']), ccp.capacitor('C1', ('c', '0'), v['C']), ccp.ground(nodes=('0',))])


case('RLC_series', RLC, ['Vs'], ['b', 'c'], ['R1', 'L1', 'C1'])


class TwoSources:
    """A voltage source whose id sorts BEFORE the current source's id (E1 < J1), an inductor in between (I.. < L..)."""
    n_states = 2

    def values(g):
        return dict(R1=g.pos('R1'), R2=g.pos('R2'), L=g.pos('L'), C=g.pos('C'))

    def circuit(v, amps, w):
        return Circuit([ccp.ac_voltage_source('E1', ('a', '0'), V=amps['E1'], w=w), ccp.resistor('R1', ('a', 'b'), v['R1']),
                        ccp.inductance('H1', ('b', 'c'), v['L']), ccp.capacitor('C1', ('c', '0'), v['C']), ccp.resistor('R2', ('c', '0'), v['R2']),
                        ccp.ac_current_source('J1', ('0', 'c'), I=amps['J1'], w=w), ccp.ground(nodes=('0',))])


case('two_sources_interleaved_names', TwoSources, ['E1', 'J1'], ['b', 'c'], ['R1', 'H1', 'C1', 'J1'])


class TwoInductors:
    """Two inductors listed in non-alphabetical order."""
    n_states = 2

    def values(g):
        return dict(R1=g.pos('R1'), R2=g.pos('R2'), La=g.pos('La'), Lb=g.pos('Lb'))

    def circuit(v, amps, w):
        return Circuit([ccp.ac_voltage_source('Vs', ('a', '0'), V=amps['Vs'], w=w), ccp.inductance('Lb', ('a', 'b'), v['Lb']),
                        ccp.resistor('R1', ('b', '0'), v['R1']), ccp.inductance('La', ('b', 'c'), v['La']),
                        ccp.resistor('R2', ('c', '0'), v['R2']), ccp.ground(nodes=('0',))])


case('two_inductors_listed_backwards', TwoInductors, ['Vs'], ['b', 'c'], ['Lb', 'La', 'R2'])


class TwoCapacitors:
    """Two capacitors listed in non-alphabetical order (RC ladder)."""
    n_states = 2

    def values(g):
        return dict(R1=g.pos('R1'), R2=g.pos('R2'), C1=g.pos('C1'), C2=g.pos('C2'))

    def circuit(v, amps, w):
        return Circuit([ccp.ac_voltage_source('Vs', ('a', '0'), V=amps['Vs'], w=w), ccp.resistor('R1', ('a', 'b'), v['R1']),
                        ccp.capacitor('C2', ('b', '0'), v['C2']), ccp.resistor('R2', ('b', 'c'), v['R2']),
                        ccp.capacitor('C1', ('c', '0'), v['C1']), ccp.ground(nodes=('0',))])


case('two_capacitors_listed_backwards', TwoCapacitors, ['Vs'], ['b', 'c'], ['C2', 'C1', 'R2'])


# ---- the states are the capacitor voltages and inductor currents; currents balance for every state and input (C10, C12);
# ---- W*A + A^T*W is negative semidefinite with W = diag(C..., L...) (C11)


def nodal_model(circuit):
    C_values = {c.id: float(c.value['C']) for c in circuit.components if c.type == 'capacitor'}
    L_values = {c.id: float(c.value['L']) for c in circuit.components if c.type == 'inductance'}
    return nodal_state_space_model(transform_circuit(circuit, w=0), c_values=C_values, l_values=L_values), C_values, L_values


def dynamics_case(name, build, sources, node_checks, elements=()):
    """node_checks: {node: [(element id, +1 if node is the element's first terminal else -1), ...]} for KCL."""
    @contract('CircuitCalculator.Network.NodalAnalysis.state_space_model.nodal_state_space_model', props=['C10', 'C11', 'C12', 'C05'], name='dynamics_' + name,
              bounded='circuit ' + name + ' (contracts/statespace.py), all element values, states and inputs symbolic')
    class _c:
        def inputs(g):
            return dict(vals=build.values(g), x=[g.real('x' + str(k)) for k in range(build.n_states)], u=[g.real('u' + str(k)) for k in range(len(sources))])

        def call(f, vals, x, u):
            ssm, C_values, L_values = nodal_model(build.circuit(vals, {s: 1 for s in sources}, 0))
            return (ssm, C_values, L_values)

        def ensures(result, vals, x, u):
            ssm, C_values, L_values = result
            xv, uv = np.array(x), np.array(u)
            dx = ssm.A @ xv + ssm.B @ uv

            def out(c_row, d_row):
                return np.reshape(c_row @ xv + d_row @ uv, (-1,))[0]

            def current(e):
                return out(ssm.c_row_current(e), ssm.d_row_current(e))

            def voltage(e):
                return out(ssm.c_row_voltage(e), ssm.d_row_voltage(e))
            res = {}
            for k, c in enumerate(C_values):
                res['state ' + str(k) + ' is the voltage of ' + c] = eq(voltage(c), x[k])
                res['i = C dv/dt for ' + c] = eq(current(c), C_values[c] * dx[k])
            nc = len(C_values)
            for k, l in enumerate(L_values):
                res['state ' + str(nc + k) + ' is the current of ' + l] = eq(current(l), x[nc + k])
                res['v = L di/dt for ' + l] = eq(voltage(l), L_values[l] * dx[nc + k])
            for j, s in enumerate(ssm.sources):
                is_current_source = s in ssm.current_source_index_mapping
                res['input ' + str(j) + ' drives ' + s] = eq(current(s), u[j]) if is_current_source else eq(voltage(s), u[j])
            for node, items in node_checks.items():
                total = 0
                for e, sign in items:
                    total = total + sign * current(e)
                res['KCL at ' + node + ' for every state and input'] = eq(total, 0)
            if elements:
                res['instantaneous powers of all elements sum to zero for every state and input'] = balanced([voltage(e_) * current(e_) for e_ in elements])
            # passivity: S = W A + A^T W negative semidefinite (2 x 2: diagonal <= 0 and det >= 0; 1 x 1: entry <= 0)
            W = list(C_values.values()) + list(L_values.values())
            n = len(W)
            S = [[W[i] * ssm.A[i, j] + ssm.A[j, i] * W[j] for j in range(n)] for i in range(n)]
            if n == 1:
                res['stored energy cannot grow: W*A + A^T*W <= 0'] = ge(0, S[0][0])
            elif n == 2:
                res['stored energy cannot grow: W*A + A^T*W <= 0'] = ge(0, S[0][0]) and ge(0, S[1][1]) and ge(S[0][0] * S[1][1] - S[0][1] * S[1][0], 0)
            return res
    return _c


dynamics_case('RC', RC, ['Vs'], {'b': [('R1', -1), ('C1', 1)]}, ['Vs', 'R1', 'C1'])
dynamics_case('RLC_series', RLC, ['Vs'], {'b': [('R1', -1), ('L1', 1)], 'c': [('L1', -1), ('C1', 1)]})
dynamics_case('two_sources_interleaved_names', TwoSources, ['E1', 'J1'], {'b': [('R1', -1), ('H1', 1)], 'c': [('H1', -1), ('C1', 1), ('R2', 1), ('J1', -1)]}, ['E1', 'R1', 'H1', 'C1', 'R2', 'J1'])
dynamics_case('two_inductors_listed_backwards', TwoInductors, ['Vs'], {'b': [('Lb', -1), ('R1', 1), ('La', 1)], 'c': [('La', -1), ('R2', 1)]})
dynamics_case('two_capacitors_listed_backwards', TwoCapacitors, ['Vs'], {'b': [('R1', -1), ('C2', 1), ('R2', 1)], 'c': [('R2', -1), ('C1', 1)]}, ['Vs', 'R1', 'C2', 'R2', 'C1'])


# ---- TransientSolution: the simulator is a parameter; a stub records what it is given and returns arbitrary states (C12, C05, C19)

from CircuitCalculator.Circuit.solution import TransientSolution


def recording_solver(states, seen):
    def solver(ssm, u, t, x0):
        seen.append((ssm, u, t, x0))
        return t, states, None
    return solver


@contract('CircuitCalculator.Circuit.solution.TransientSolution', props=['C12', 'C05', 'C03'], name='transient_outputs',
          bounded='circuit two_sources_interleaved_names, three time samples; element values, input samples and simulated states symbolic')
class transient_outputs:
    def inputs(g):
        return dict(vals=TwoSources.values(g), h=g.pos('h'), e=[g.real('e' + str(k)) for k in range(3)], j=[g.real('j' + str(k)) for k in range(3)],
                    xs=[[g.real('x' + str(k) + str(i)) for i in range(2)] for k in range(3)])

    def call(f, vals, h, e, j, xs):
        circuit = TwoSources.circuit(vals, {'E1': 0, 'J1': 1}, 0)       # the DC amplitude of the voltage source is 0: its waveform comes from `input`
        seen = []
        tin = np.array([0, h, 2 * h])
        sol = f(circuit=circuit, tin=tin, input={'J1': lambda t: np.array(j), 'E1': lambda t: np.array(e)}, solver=recording_solver(np.array(xs), seen))
        model, _, _ = nodal_model(circuit)
        return (sol, seen, model, tin)

    def ensures(result, vals, h, e, j, xs):
        sol, seen, model, tin = result
        ssm, u, t, x0 = seen[0]
        if sorted(model.sources) != ['E1', 'J1']:
            return {'every source of the circuit is an input of the simulation': False}
        inputs = {'E1': e, 'J1': j}
        res = {
            'simulator called once, with the model\'s A and B and the identity output map': len(seen) == 1 and eq(ssm.A, model.A) and eq(ssm.B, model.B)
            and eq(ssm.C, np.eye(2)) and eq(ssm.D, np.zeros((2, 2))),
            'starts from rest': eq(x0, np.zeros((2, 1))),
            'time grid passed through': eq(t, tin) and eq(sol.t, tin),
            'input column k is the waveform of the k-th published source': all([eq(u[n, k], inputs[s][n]) for n in range(3) for k, s in enumerate(model.sources)]),
        }
        for n in range(3):
            xv = np.array(xs[n])
            uv = np.array([inputs[s][n] for s in model.sources])

            def out(c_row, d_row):
                return np.reshape(c_row @ xv + d_row @ uv, (-1,))[0]
            res['potential c at sample ' + str(n)] = eq(sol.get_potential('c')[1][n], out(model.c_row_for_potential('c'), model.d_row_for_potential('c')))
            res['voltage H1 at sample ' + str(n)] = eq(sol.get_voltage('H1')[1][n], out(model.c_row_voltage('H1'), model.d_row_voltage('H1')))
            res['current C1 at sample ' + str(n)] = eq(sol.get_current('C1')[1][n], out(model.c_row_current('C1'), model.d_row_current('C1')))
            res['power R2 = v*i at sample ' + str(n)] = eq(sol.get_power('R2')[1][n], sol.get_voltage('R2')[1][n] * sol.get_current('R2')[1][n])
        return res


@contract('CircuitCalculator.Circuit.solution.TransientSolution', props=['C12', 'C19'], name='transient_unknown_ids', bounded='circuit RC, two time samples')
class transient_unknown_ids:
    def inputs(g):
        return dict(vals=RC.values(g), q=g.label('q'))

    def call(f, vals, q):
        circuit = RC.circuit(vals, {'Vs': 1}, 0)
        tin = np.array([0, 1])
        sol = f(circuit=circuit, tin=tin, input={'Vs': lambda t: np.array([0, 1])}, solver=recording_solver(np.array([[0], [1]]), []))
        outcomes = []
        for getter in (sol.get_potential, sol.get_voltage, sol.get_current, sol.get_power):
            try:
                getter(q)
                outcomes.append(False)
            except Exception:
                outcomes.append(True)
        try:
            f(circuit=circuit, tin=tin, input={}, solver=recording_solver(np.array([[0], [1]]), []))
            missing_input = False
        except KeyError:
            missing_input = True
        return (outcomes, missing_input)

    def ensures(result, vals, q):
        (pot, vol, cur, pw), missing_input = result
        node = q == 'a' or q == 'b' or q == '0'
        elem = q == 'Vs' or q == 'R1' or q == 'C1'
        return {'unknown node id raises': iff(pot, not node), 'unknown element id raises (voltage)': iff(vol, not elem),
                'unknown element id raises (current)': iff(cur, not elem), 'unknown element id raises (power)': iff(pw, not elem),
                'missing input waveform raises': missing_input}


# ---- passivity with LOSSY sources that carry a phase (C11): internal resistance / conductance are positive real whatever the phase


class LossySourcesRC:
    n_states = 1

    def values(g):
        return dict(R=g.pos('R'), C=g.pos('C'), Rs=g.pos('Rs'), Gs=g.pos('Gs'), phiv=g.real('phiv'), phii=g.real('phii'))

    def circuit(v):
        return Circuit([ccp.ac_voltage_source('Vs', ('a', '0'), V=1, w=0, phi=v['phiv'], R=v['Rs']), ccp.resistor('R1', ('a', 'b'), v['R']),
                        ccp.capacitor('C1', ('b', '0'), v['C']), ccp.ac_current_source('Is', ('0', 'b'), I=1, w=0, phi=v['phii'], G=v['Gs']),
                        ccp.ground(nodes=('0',))])


@contract('CircuitCalculator.Network.NodalAnalysis.state_space_model.nodal_state_space_model', props=['C11', 'C10'], name='dynamics_lossy_sources_with_phase',
          bounded='RC circuit fed by a lossy voltage source and a lossy current source with arbitrary phases; all values symbolic')
class dynamics_lossy_sources:
    def inputs(g):
        return dict(vals=LossySourcesRC.values(g))

    def call(f, vals):
        ssm, C_values, L_values = nodal_model(LossySourcesRC.circuit(vals))
        return ssm

    def ensures(result, vals):
        A = result.A[0, 0]
        R, C, Rs, Gs = vals['R'], vals['C'], vals['Rs'], vals['Gs']
        return {'one state': result.A.shape == (1, 1),
                'A = -(Gs + 1/(R + Rs))/C: real and negative for every source phase': eq(A * C * (R + Rs), -(Gs * (R + Rs) + 1)),
                'stored energy cannot grow: 2*C*A <= 0': ge(0, 2 * C * A)}
