"""Contracts for CircuitCalculator/Circuit/transformers.py (DESIGN sec. 8 / C07): one branch per component with the
component's id and terminal order, whose immittance and source value are those of the component at w."""
import numpy as np
from pyvc.spec import contract, eq, implies, iff, raised
from CircuitCalculator.Circuit import components as ccp
from CircuitCalculator.Circuit import transformers as trf
from CircuitCalculator.Network import elements as elm
from contracts.periodic import spec_amplitude, spec_phase, WAVEFORMS

P = ['C07', 'C02']


def comp(g, tag, value):
    return ccp.Component(type=tag, id=g.label('id'), nodes=(g.label('n1'), g.label('n2')), value=value)


def wiring(result, c):
    return result.node1 == c.nodes[0] and result.node2 == c.nodes[1] and result.element.name == c.id


def passive(tag, value_keys, spec):
    """spec(value dict, w) -> ('Z', z) or ('Y', y): the immittance the property lists for this kind."""
    @contract('CircuitCalculator.Circuit.transformers.' + tag, props=P, name=tag)
    class _c:
        def inputs(g):
            return dict(c=comp(g, tag, {k: g.real(k) for k in value_keys}), w=g.real('w'), w_res=g.real('w_res'))

        def requires(c, w, w_res):
            return all([c.value[k] >= 0 for k in value_keys if k in ('R', 'G', 'C', 'L')]) and w >= 0

        def call(f, c, w, w_res):
            return f(c, w, w_res)

        def ensures(result, c, w, w_res):
            kind, val = spec(c.value, w)
            e = result.element
            return {
                'wiring': wiring(result, c),
                'immittance': eq(e.Z, val) if kind == 'Z' else eq(e.Y, val),
                'no source': eq(e.V, 0) if kind == 'Z' else eq(e.I, 0),
            }
    return _c


passive('resistor', ['R'], lambda v, w: ('Z', v['R']))
passive('conductance', ['G'], lambda v, w: ('Y', v['G']))
passive('impedance', ['R', 'X'], lambda v, w: ('Z', complex(v['R'], v['X'])))
passive('admittance', ['G', 'B'], lambda v, w: ('Y', complex(v['G'], v['B'])))
passive('capacitor', ['C'], lambda v, w: ('Y', 1j * w * v['C']))
passive('inductance', ['L'], lambda v, w: ('Z', 1j * w * v['L']))


@contract('CircuitCalculator.Circuit.transformers.short_circuit', props=P)
class short_circuit:
    def inputs(g):
        return dict(c=comp(g, 'short_circuit', {}), w=g.real('w'), w_res=g.real('w_res'))

    def call(f, c, w, w_res):
        return f(c, w, w_res)

    def ensures(result, c, w, w_res):
        return {'wiring': wiring(result, c), 'short': eq(result.element.Z, 0) and eq(result.element.V, 0)}


def load_like(tag):
    @contract('CircuitCalculator.Circuit.transformers.resistive_load', props=P, name=tag)
    class _c:
        def inputs(g):
            return dict(c=comp(g, tag, {'P': g.real('P'), 'V_ref': g.real('V_ref')}), w=g.real('w'), w_res=g.real('w_res'))

        def requires(c, w, w_res):
            return c.value['P'] >= 0 and c.value['V_ref'] > 0

        def call(f, c, w, w_res):
            return trf.transformers[tag](c, w, w_res)

        def ensures(result, c, w, w_res):
            e = result.element
            return {'wiring': wiring(result, c),
                    'rated conductance P/V_ref^2': eq(e.Y * c.value['V_ref']**2, c.value['P']),
                    'no source': eq(e.I, 0)}
    return _c


load_like('resistive_load')
load_like('lamp')


# ---- sources ---------------------------------------------------------------------------------


def phasor(A, phi):
    return A * complex(np.cos(phi), np.sin(phi))


def voltage_source(tag, has_phase):
    @contract('CircuitCalculator.Circuit.transformers.' + tag, props=P, name=tag)
    class _c:
        def inputs(g):
            v = {'V': g.real('V'), 'R': g.real('R'), 'w': g.real('ws') if has_phase else 0, 'phi': g.real('phi') if has_phase else 0}
            return dict(c=comp(g, tag, v), w=g.real('w'), w_res=g.real('w_res'))

        def requires(c, w, w_res):
            return c.value['R'] >= 0 and c.value['w'] >= 0 and w >= 0 and w_res >= 0

        def call(f, c, w, w_res):
            return f(c, w, w_res)

        def ensures(result, c, w, w_res):
            e = result.element
            on = abs(w - c.value['w']) <= w_res
            return {
                'wiring': wiring(result, c),
                'own frequency: phasor': implies(on, eq(e.V, phasor(c.value['V'], c.value['phi']))),
                'own frequency: internal resistance': implies(on, eq(e.Z, c.value['R'])),
                'other frequency: short circuit': implies(not on, eq(e.V, 0) and eq(e.Z, 0)),
            }
    return _c


voltage_source('dc_voltage_source', False)
voltage_source('ac_voltage_source', True)


def current_source(tag, has_phase):
    @contract('CircuitCalculator.Circuit.transformers.' + tag, props=P, name=tag)
    class _c:
        def inputs(g):
            v = {'I': g.real('I'), 'G': g.real('G'), 'w': g.real('ws') if has_phase else 0, 'phi': g.real('phi') if has_phase else 0}
            return dict(c=comp(g, tag, v), w=g.real('w'), w_res=g.real('w_res'))

        def requires(c, w, w_res):
            return c.value['G'] >= 0 and c.value['w'] >= 0 and w >= 0 and w_res >= 0

        def call(f, c, w, w_res):
            return f(c, w, w_res)

        def ensures(result, c, w, w_res):
            e = result.element
            on = abs(w - c.value['w']) <= w_res
            return {
                'wiring': wiring(result, c),
                'own frequency: phasor': implies(on, eq(e.I, phasor(c.value['I'], c.value['phi']))),
                'own frequency: internal conductance': implies(on, eq(e.Y, c.value['G'])),
                'other frequency: open circuit': implies(not on, eq(e.I, 0) and eq(e.Y, 0)),
            }
    return _c


current_source('dc_current_source', False)
current_source('ac_current_source', True)


@contract('CircuitCalculator.Circuit.transformers.complex_voltage_source', props=P)
class complex_voltage_source:
    def inputs(g):
        v = {'V_real': g.real('Vr'), 'V_imag': g.real('Vi'), 'R': g.real('R'), 'X': g.real('X')}
        return dict(c=comp(g, 'complex_voltage_source', v), w=g.real('w'), w_res=g.real('w_res'))

    def requires(c, w, w_res):
        return w >= 0

    def call(f, c, w, w_res):
        return f(c, w, w_res)

    def ensures(result, c, w, w_res):
        e = result.element
        return {'wiring': wiring(result, c), 'V': eq(e.V, complex(c.value['V_real'], c.value['V_imag'])),
                'Z': eq(e.Z, complex(c.value['R'], c.value['X']))}


@contract('CircuitCalculator.Circuit.transformers.complex_current_source', props=P)
class complex_current_source:
    """Built through the component constructor, as every caller does."""
    def inputs(g):
        return dict(id=g.label('id'), n1=g.label('n1'), n2=g.label('n2'), I=g.complex('I'), Y=g.complex('Y'), w=g.real('w'), w_res=g.real('w_res'))

    def requires(id, n1, n2, I, Y, w, w_res):
        return w >= 0

    def call(f, id, n1, n2, I, Y, w, w_res):
        return f(ccp.complex_current_source(id=id, nodes=(n1, n2), I=I, Y=Y), w, w_res)

    def ensures(result, id, n1, n2, I, Y, w, w_res):
        e = result.element
        return {'wiring': result.node1 == n1 and result.node2 == n2 and e.name == id, 'I': eq(e.I, I), 'Y': eq(e.Y, Y)}


def periodic_voltage(kind):
    @contract('CircuitCalculator.Circuit.transformers.periodic_voltage_source', props=P + ['C09'], name='periodic_voltage_source_' + kind)
    class _c:
        def inputs(g):
            v = {'wavetype': kind, 'V': g.real('V'), 'w': g.pos('w0'), 'phi': g.real('phi'), 'R': g.real('R')}
            return dict(c=comp(g, 'periodic_voltage_source', v), w=g.real('w'), w_res=g.real('w_res'))

        def requires(c, w, w_res):
            return c.value['R'] >= 0 and w >= 0 and w_res >= 0

        def call(f, c, w, w_res):
            return f(c, w, w_res)

        def ensures(result, c, w, w_res):
            e = result.element
            w0 = c.value['w']
            n = np.round(w / w0)
            on = abs(w / w0 - n) <= w_res / w0
            A = spec_amplitude(kind, n, c.value['V'], c.value['phi'], 0)
            ph = spec_phase(kind, n, c.value['V'], c.value['phi'], 0)
            return {
                'wiring': wiring(result, c),
                'harmonic n: phasor of the n-th Fourier coefficient': implies(on, eq(e.V, phasor(A, ph))),
                'harmonic n: internal resistance': implies(on, eq(e.Z, c.value['R'])),
                'between harmonics: short circuit': implies(not on, eq(e.V, 0) and eq(e.Z, 0)),
            }
    return _c


def periodic_current(kind):
    @contract('CircuitCalculator.Circuit.transformers.periodic_current_source', props=P + ['C09'], name='periodic_current_source_' + kind)
    class _c:
        def inputs(g):
            v = {'wavetype': kind, 'I': g.real('I'), 'w': g.pos('w0'), 'phi': g.real('phi'), 'G': g.real('G')}
            return dict(c=comp(g, 'periodic_current_source', v), w=g.real('w'), w_res=g.real('w_res'))

        def requires(c, w, w_res):
            return c.value['G'] >= 0 and w >= 0 and w_res >= 0

        def call(f, c, w, w_res):
            return f(c, w, w_res)

        def ensures(result, c, w, w_res):
            e = result.element
            w0 = c.value['w']
            n = np.round(w / w0)
            on = abs(w / w0 - n) <= w_res / w0
            A = spec_amplitude(kind, n, c.value['I'], c.value['phi'], 0)
            ph = spec_phase(kind, n, c.value['I'], c.value['phi'], 0)
            return {
                'wiring': wiring(result, c),
                'harmonic n: phasor of the n-th Fourier coefficient': implies(on, eq(e.I, phasor(A, ph))),
                'harmonic n: internal conductance': implies(on, eq(e.Y, c.value['G'])),
                'between harmonics: open circuit': implies(not on, eq(e.I, 0) and eq(e.Y, 0)),
            }
    return _c


for _k in WAVEFORMS:
    periodic_voltage(_k)
    periodic_current(_k)


# ---- the dispatch table maps every type tag to the translator whose contract is for that kind

TABLE = {
    'resistor': 'resistor', 'conductance': 'conductance', 'impedance': 'impedance', 'admittance': 'admittance',
    'capacitor': 'capacitor', 'inductance': 'inductance',
    'dc_voltage_source': 'dc_voltage_source', 'ac_voltage_source': 'ac_voltage_source', 'complex_voltage_source': 'complex_voltage_source',
    'dc_current_source': 'dc_current_source', 'ac_current_source': 'ac_current_source', 'complex_current_source': 'complex_current_source',
    'periodic_voltage_source': 'periodic_voltage_source', 'periodic_current_source': 'periodic_current_source',
    'short_circuit': 'short_circuit', 'resistive_load': 'resistive_load', 'lamp': 'resistive_load',
}


@contract('CircuitCalculator.Circuit.transformers.transformers', props=['C07'], no_xcheck=True)
class dispatch_table:
    def inputs(g):
        return dict()

    def call(f):
        return f

    def ensures(result):
        out = {}
        for tag, fn in TABLE.items():
            out[tag] = tag in result and result[tag] is getattr(trf, fn)
        out['no other keys'] = all([k in TABLE for k in result.keys()])
        return out
