"""Contracts for frequency_components, TimeDomainSolution and FrequencyDomainSolution (DESIGN C09; C05 for get_power).

Circuits have a fixed small shape (the wrappers pass the circuit through); source frequencies, amplitudes and the phasors
returned by the (stubbed) network solver are symbolic.  Periodic sources are explored up to 8 harmonics (bounded)."""
import numpy as np
from pyvc.spec import contract, eq, implies, iff, raised, forall
from CircuitCalculator.Circuit import components as ccp
from CircuitCalculator.Circuit import circuit as cct
from CircuitCalculator.Circuit import solution as sol


def circuit_two_ac(g):
    return cct.Circuit([ccp.resistor('R1', ('a', '0'), g.pos('R')), ccp.ac_voltage_source('V1', ('a', '0'), V=g.real('V1'), w=g.real('w1', lo=0)),
                        ccp.dc_current_source('I0', ('0', 'a'), I=g.real('I0')), ccp.ac_current_source('I2', ('0', 'a'), I=g.real('I2'), w=g.real('w2', lo=0)),
                        ccp.ground(nodes=('0',))])


@contract('CircuitCalculator.Circuit.circuit.frequency_components', props=['C09'], bounded='one dc and two sinusoidal sources')
class frequencies_of_sinusoidal_sources:
    def inputs(g):
        return dict(circuit=circuit_two_ac(g), w_max=g.real('w_max', lo=0))

    def ensures(result, circuit, w_max):
        w1, w2 = circuit['V1'].value['w'], circuit['I2'].value['w']
        return {
            'sorted, each frequency once': all([a < b for a, b in zip(result, result[1:])]),
            'exactly the source frequencies': all([eq(x, 0) or eq(x, w1) or eq(x, w2) for x in result])
            and any([eq(x, 0) for x in result]) and any([eq(x, w1) for x in result]) and any([eq(x, w2) for x in result]),
        }


@contract('CircuitCalculator.Circuit.circuit.frequency_components', props=['C09'], bounded='one periodic source with at most 8 retained harmonics, one sinusoidal source')
class frequencies_with_periodic_source:
    def inputs(g):
        c = cct.Circuit([ccp.resistor('R1', ('a', '0'), g.pos('R')), ccp.periodic_voltage_source('Vp', ('a', '0'), 'rect', V=g.real('V'), w=g.pos('w0')),
                         ccp.ac_current_source('I2', ('0', 'a'), I=g.real('I2'), w=g.real('w2', lo=0))])
        return dict(circuit=c, w_max=g.real('w_max', lo=0))

    def requires(circuit, w_max):
        return w_max < 3.5 * circuit['Vp'].value['w']

    def ensures(result, circuit, w_max):
        w0, w2 = circuit['Vp'].value['w'], circuit['I2'].value['w']
        kmax = np.floor(w_max / w0)
        return {
            'sorted, each frequency once': all([a < b for a, b in zip(result, result[1:])]),
            'only source frequencies and harmonics k*w0 <= w_max (k = 0 included)':
                all([eq(x, w2) or any([eq(x, k * w0) and k <= kmax for k in range(4)]) for x in result]),
            'every harmonic up to w_max is analysed': all([implies(k <= kmax, any([eq(x, k * w0) for x in result])) for k in range(4)]),
            'the sinusoidal source frequency is analysed': any([eq(x, w2) for x in result]),
        }


@contract('CircuitCalculator.Circuit.circuit.frequency_components', props=['C09'], bounded='two sinusoidal sources')
class each_source_counted_once:
    """Each source must be active at exactly one analysed frequency (known finding KF-C09-1: sources closer than the
    frequency resolution but not equal are both listed and both analyses activate both sources)."""
    def inputs(g):
        return dict(circuit=circuit_two_ac(g), w_max=g.real('w_max', lo=0), w_res=g.pos('w_res'))

    def call(f, circuit, w_max, w_res):
        return f(circuit, w_max)

    def ensures(result, circuit, w_max, w_res):
        out = {}
        for name in ('V1', 'I2'):
            ws = circuit[name].value['w']
            active = [abs(x - ws) <= w_res for x in result]
            count = sum([1 if a else 0 for a in active])
            out[name + ' is active at exactly one analysed frequency'] = count == 1
        return out


class Phasors:
    """Stub network solution with one arbitrary phasor per quantity."""
    def __init__(self, v, i, phi):
        self.v, self.i, self.phi = v, i, phi

    def get_voltage(self, id):
        return self.v

    def get_current(self, id):
        return self.i

    def get_potential(self, id):
        return self.phi

    def get_power(self, id):
        return self.v * np.conj(self.i)


def sequence_solver(solutions, seen):
    def solver(network):
        seen.append(network)
        return solutions[len(seen) - 1]
    return solver


def osc(X, w, t):
    return abs(X) * np.cos(w * t + np.angle(X))


@contract('CircuitCalculator.Circuit.solution.TimeDomainSolution', props=['C09', 'C05'], bounded='two analysed frequencies (0 and w1)')
class time_domain_solution:
    def inputs(g):
        c = cct.Circuit([ccp.resistor('R1', ('a', '0'), g.pos('R')), ccp.ac_voltage_source('V1', ('a', '0'), V=g.real('V1'), w=g.pos('w1')),
                         ccp.dc_current_source('I0', ('0', 'a'), I=g.real('I0'))])
        return dict(circuit=c, w_max=g.real('w_max', lo=0), t=g.real('t'),
                    v0=g.complex('v0'), i0=g.complex('i0'), p0=g.complex('p0'), v1=g.complex('v1'), i1=g.complex('i1'), p1=g.complex('p1'))

    def call(f, circuit, w_max, t, v0, i0, p0, v1, i1, p1):
        seen = []
        s = f(circuit=circuit, w_max=w_max, solver=sequence_solver([Phasors(v0, i0, p0), Phasors(v1, i1, p1)], seen))
        return (s.w, seen, s.get_voltage('R1')(t), s.get_current('R1')(t), s.get_potential('a')(t), s.get_power('R1')(t))

    def ensures(result, circuit, w_max, t, v0, i0, p0, v1, i1, p1):
        w, seen, v, i, phi, p = result
        w1 = circuit['V1'].value['w']
        return {
            'analysed frequencies': len(w) == 2 and eq(w[0], 0) and eq(w[1], w1),
            'one network per frequency, in that order': len(seen) == 2 and eq(seen[0], cct.transform_circuit(circuit, 0)) and eq(seen[1], cct.transform_circuit(circuit, w1)),
            'v(t) = sum |X_k| cos(w_k t + arg X_k)': eq(v, osc(v0, 0, t) + osc(v1, w1, t)),
            'i(t)': eq(i, osc(i0, 0, t) + osc(i1, w1, t)),
            'phi(t)': eq(phi, osc(p0, 0, t) + osc(p1, w1, t)),
            'p(t) = v(t)*i(t)': eq(p, (osc(v0, 0, t) + osc(v1, w1, t)) * (osc(i0, 0, t) + osc(i1, w1, t))),
        }


@contract('CircuitCalculator.Circuit.solution.FrequencyDomainSolution', props=['C09'], bounded='two analysed frequencies (0 and w1), one-sided')
class frequency_domain_one_sided:
    def inputs(g):
        c = cct.Circuit([ccp.resistor('R1', ('a', '0'), g.pos('R')), ccp.ac_voltage_source('V1', ('a', '0'), V=g.real('V1'), w=g.pos('w1')),
                         ccp.dc_current_source('I0', ('0', 'a'), I=g.real('I0'))])
        return dict(circuit=c, v0=g.complex('v0'), i0=g.complex('i0'), p0=g.complex('p0'), v1=g.complex('v1'), i1=g.complex('i1'), p1=g.complex('p1'))

    def call(f, circuit, v0, i0, p0, v1, i1, p1):
        seen = []
        s = f(circuit=circuit, w_max=0, solver=sequence_solver([Phasors(v0, i0, p0), Phasors(v1, i1, p1)], seen))
        return (s.get_voltage('R1'), s.get_current('R1'), s.get_potential('a'), s.get_power('R1'), seen)

    def ensures(result, circuit, v0, i0, p0, v1, i1, p1):
        (wv, V), (wi, I), (wp, PHI), (wq, P), seen = result
        w1 = circuit['V1'].value['w']
        return {
            'frequency axis': eq(list(wv), [0, w1]) and eq(list(wi), [0, w1]) and eq(list(wp), [0, w1]),
            'spectral line = peak phasor of that frequency': eq(list(V), [v0, v1]) and eq(list(I), [i0, i1]) and eq(list(PHI), [p0, p1]),
            'power line = half V*conj(I) of the peak phasors': eq(list(P), [v0 * np.conj(i0) / 2, v1 * np.conj(i1) / 2]),
            'networks': len(seen) == 2 and eq(seen[1], cct.transform_circuit(circuit, w1)),
        }


@contract('CircuitCalculator.Circuit.solution.FrequencyDomainSolution', props=['C09'], bounded='two analysed frequencies (0 and w1), two-sided')
class frequency_domain_two_sided:
    """Two-sided spectrum: (-w1, 0, w1) with (conj X1 / 2, X0, X1 / 2) - the DC line is not halved.  Known finding KF-C09-2."""
    def inputs(g):
        c = cct.Circuit([ccp.resistor('R1', ('a', '0'), g.pos('R')), ccp.ac_voltage_source('V1', ('a', '0'), V=g.real('V1'), w=g.pos('w1')),
                         ccp.dc_current_source('I0', ('0', 'a'), I=g.real('I0'))])
        return dict(circuit=c, v0=g.complex('v0'), i0=g.complex('i0'), p0=g.complex('p0'), v1=g.complex('v1'), i1=g.complex('i1'), p1=g.complex('p1'))

    def call(f, circuit, v0, i0, p0, v1, i1, p1):
        seen = []
        s = f(circuit=circuit, w_max=0, solver=sequence_solver([Phasors(v0, i0, p0), Phasors(v1, i1, p1)], seen), one_sided=False)
        return s.get_voltage('R1')

    def ensures(result, circuit, v0, i0, p0, v1, i1, p1):
        w, V = result
        w1 = circuit['V1'].value['w']
        return {'frequency axis': eq(list(w), [-w1, 0, w1]), 'lines': eq(list(V), [np.conj(v1) / 2, v0, v1 / 2])}
