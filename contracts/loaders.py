"""Contracts for Network/loaders.py (DESIGN C17): every documented element kind loads into the element with exactly the
given identifier, terminals and value; Cartesian and polar notations denote the same number; nothing given is mutated
(the `frame` obligation is generated for every contract: inputs are compared before/after)."""
import numpy as np
from pyvc.spec import contract, eq, implies, iff, raised
from CircuitCalculator.Network import loaders as ld
from CircuitCalculator.Network import elements as elm
from CircuitCalculator.Network.network import Network, Branch

P = ['C17', 'C20']


@contract('CircuitCalculator.Network.loaders.to_complex', props=P)
class to_complex_cartesian:
    def inputs(g):
        return dict(z={'real': g.real('re'), 'imag': g.real('im')}, degree=g.bool('degree'))

    def ensures(result, z, degree):
        return {'value': eq(result, complex(z['real'], z['imag']))}


@contract('CircuitCalculator.Network.loaders.to_complex', props=P)
class to_complex_polar:
    def inputs(g):
        return dict(z={'abs': g.real('abs'), 'phase': g.real('phase')}, degree=g.bool('degree'))

    def ensures(result, z, degree):
        ph = z['phase'] * np.pi / 180 if degree else z['phase']
        return {'value': eq(result, z['abs'] * complex(np.cos(ph), np.sin(ph)))}


@contract('CircuitCalculator.Network.loaders.to_complex', props=P + ['C19'])
class to_complex_malformed:
    total = True

    def inputs(g):
        k = g.choice('shape', [0, 1, 2, 3])
        z = [{'real': g.real('a')}, {'abs': g.real('a')}, {'phase': g.real('a'), 'imag': g.real('b')}, g.real('a')][k]
        return dict(z=z, degree=g.bool('degree'))

    def ensures(result, z, degree):
        return {'rejected': raised(result, ld.FileFormatError)}


# ---- the twelve entries of the loader table


def value_dict(g, name, polar):
    if polar:
        return {'abs': g.real(name + '_abs'), 'phase': g.real(name + '_ph')}
    return {'real': g.real(name + '_re'), 'imag': g.real(name + '_im')}


def denote(d):
    if 'real' in d:
        return complex(d['real'], d['imag'])
    return d['abs'] * complex(np.cos(d['phase']), np.sin(d['phase']))


def loader(kind, fields, check):
    """fields: {key: 'real' | 'cplx'};  check(result element, name, values) -> dict of clauses."""
    @contract('CircuitCalculator.Network.loaders.network_branch_translators', props=['C17'], name='loader_' + kind)
    class _c:
        def inputs(g):
            vals = {}
            for k, t in fields.items():
                vals[k] = g.real(k) if t == 'real' else value_dict(g, k, g.bool(k + '_polar'))
            return dict(name=g.label('name'), vals=vals)

        def call(f, name, vals):
            return f[kind](name=name, **vals)

        def ensures(result, name, vals):
            out = {'name': result.name == name}
            out.update(check(result, vals))
            return out
    return _c


loader('resistor', {'R': 'real'}, lambda e, v: {'Z': eq(e.Z, v['R']), 'V': eq(e.V, 0)})
loader('conductor', {'G': 'real'}, lambda e, v: {'Y': eq(e.Y, v['G']), 'I': eq(e.I, 0)})
loader('impedance', {'Z': 'cplx'}, lambda e, v: {'Z': eq(e.Z, denote(v['Z'])), 'V': eq(e.V, 0)})
loader('admittance', {'Y': 'cplx'}, lambda e, v: {'Y': eq(e.Y, denote(v['Y'])), 'I': eq(e.I, 0)})
loader('linear_current_source', {'I': 'cplx', 'Y': 'cplx'}, lambda e, v: {'I': eq(e.I, denote(v['I'])), 'Y': eq(e.Y, denote(v['Y']))})
loader('current_source', {'I': 'cplx'}, lambda e, v: {'I': eq(e.I, denote(v['I'])), 'Y': eq(e.Y, 0)})
loader('real_current_source', {'I': 'real'}, lambda e, v: {'I': eq(e.I, v['I']), 'Y': eq(e.Y, 0)})
loader('linear_voltage_source', {'V': 'cplx', 'Z': 'cplx'}, lambda e, v: {'V': eq(e.V, denote(v['V'])), 'Z': eq(e.Z, denote(v['Z']))})
loader('voltage_source', {'V': 'cplx'}, lambda e, v: {'V': eq(e.V, denote(v['V'])), 'Z': eq(e.Z, 0)})
loader('real_voltage_source', {'V': 'real'}, lambda e, v: {'V': eq(e.V, v['V']), 'Z': eq(e.Z, 0)})
loader('short_circuit', {}, lambda e, v: {'short': elm.is_short_circuit(e)})
loader('open_circuit', {}, lambda e, v: {'open': elm.is_open_circuit(e)})


@contract('CircuitCalculator.Network.loaders.network_branch_translators', props=['C17'], no_xcheck=True)
class loader_table_keys:
    def inputs(g):
        return dict()

    def call(f):
        return f

    def ensures(result):
        kinds = ['resistor', 'conductor', 'impedance', 'admittance', 'linear_current_source', 'current_source', 'real_current_source',
                 'linear_voltage_source', 'voltage_source', 'real_voltage_source', 'short_circuit', 'open_circuit']
        return {'documented kinds': all([k in result for k in kinds]) and len(result) == len(kinds)}


# ---- load_network (bounded list shapes; the unbounded version is in contracts/seq_loaders.py when available)


@contract('CircuitCalculator.Network.loaders.load_network', props=P, bounded='description lists of length 2 (one complex-valued and one real-valued entry)')
class load_network_two:
    def inputs(g):
        e1 = {'N1': g.label('a1'), 'N2': '0', 'id': g.label('id1'), 'type': 'impedance', 'Z': value_dict(g, 'Z', g.bool('Z_polar'))}
        e2 = {'type': 'real_current_source', 'id': g.label('id2'), 'N1': '0', 'N2': g.label('b2'), 'I': g.real('I')}
        return dict(network_dict=[e1, e2])

    def requires(network_dict):
        return network_dict[0]['id'] != network_dict[1]['id']

    def ensures(result, network_dict):
        e1, e2 = network_dict
        b1, b2 = result.branches[0], result.branches[1]
        return {
            'two branches in order': len(result.branches) == 2 and result.node_zero_label == '0',
            'first: terminals and id': b1.node1 == e1['N1'] and b1.node2 == e1['N2'] and b1.id == e1['id'],
            'first: value': eq(b1.element.Z, denote(e1['Z'])) and eq(b1.element.V, 0),
            'second: terminals and id': b2.node1 == e2['N1'] and b2.node2 == e2['N2'] and b2.id == e2['id'],
            'second: value': eq(b2.element.I, e2['I']) and eq(b2.element.Y, 0),
        }


@contract('CircuitCalculator.Network.loaders.load_network', props=P, bounded='description lists of length 1')
class load_network_twice:
    """Loading the same description twice gives equal results."""
    def inputs(g):
        e1 = {'N1': g.label('a1'), 'N2': '0', 'id': g.label('id1'), 'type': 'linear_voltage_source', 'V': value_dict(g, 'V', g.bool('V_polar')),
              'Z': value_dict(g, 'Z', g.bool('Z_polar'))}
        return dict(network_dict=[e1])

    def call(f, network_dict):
        return (f(network_dict), f(network_dict))

    def ensures(result, network_dict):
        return {'equal': eq(result[0], result[1])}


@contract('CircuitCalculator.Network.loaders.load_network', props=['C17', 'C19'], bounded='description lists of length 2 with one fault')
class load_network_malformed:
    total = True

    def inputs(g):
        good = {'N1': 'a', 'N2': '0', 'id': 'R1', 'type': 'resistor', 'R': g.real('R')}
        fault = g.choice('fault', ['N1', 'N2', 'id', 'type', 'unknown'])
        bad = {'N1': 'a', 'N2': '0', 'id': 'R2', 'type': 'resistor', 'R': g.real('R2')}
        if fault == 'unknown':
            bad['type'] = 'transmogrifier'
        else:
            del bad[fault]
        first = g.bool('fault_first')
        return dict(network_dict=[bad, good] if first else [good, bad])

    def ensures(result, network_dict):
        return {'rejected': raised(result)}


from pyvc.spec import json_file


@contract('CircuitCalculator.Network.loaders.load_network_from_json', props=P, bounded='description lists of length 2', search='wide')
class load_network_from_json_file:
    """The file loader returns exactly what load_network returns for the document stored in the file."""
    def inputs(g):
        return dict(doc=[{'N1': g.label('a1'), 'N2': '0', 'id': g.label('id1'), 'type': 'resistor', 'R': g.real('R')},
                         {'N1': '0', 'N2': g.label('b2'), 'id': g.label('id2'), 'type': 'real_voltage_source', 'V': g.real('V')}])

    def requires(doc):
        return doc[0]['id'] != doc[1]['id']

    def call(f, doc):
        return f(json_file(doc))

    def ensures(result, doc):
        return {'same as loading the document': eq(result, ld.load_network(doc))}


# ---- a missing value field is never filled in silently (C19)

FIELDS = {'resistor': {'R': 'real'}, 'conductor': {'G': 'real'}, 'impedance': {'Z': 'cplx'}, 'admittance': {'Y': 'cplx'},
          'linear_current_source': {'I': 'cplx', 'Y': 'cplx'}, 'current_source': {'I': 'cplx'}, 'real_current_source': {'I': 'real'},
          'linear_voltage_source': {'V': 'cplx', 'Z': 'cplx'}, 'voltage_source': {'V': 'cplx'}, 'real_voltage_source': {'V': 'real'}}


def missing_field(kind, fields, missing):
    @contract('CircuitCalculator.Network.loaders.load_network', props=['C19', 'C17'], name='load_network_missing_' + kind + '_' + missing,
              bounded='one entry of kind ' + kind + ' without its ' + missing + ' field (plus a grounded resistor)')
    class _c:
        total = True

        def inputs(g):
            e = {'N1': 'a', 'N2': '0', 'id': 'X1', 'type': kind}
            for k, t in fields.items():
                if k != missing:
                    e[k] = g.real(k) if t == 'real' else value_dict(g, k, g.bool(k + '_polar'))
            return dict(network_dict=[{'N1': 'a', 'N2': '0', 'id': 'R0', 'type': 'resistor', 'R': g.real('R0')}, e])

        def ensures(result, network_dict):
            return {'rejected, not completed with a default': raised(result)}
    return _c


for _kind, _fields in FIELDS.items():
    for _missing in _fields:
        missing_field(_kind, _fields, _missing)
