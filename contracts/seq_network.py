"""Contracts over networks with an ARBITRARY number of branches (sequence layer, DESIGN Part I.11): the branch list is an
abstract list of symbolic length whose generic element is an arbitrary branch (any element kind, symbolic complex values,
symbolic labels).  The obligations hold for every length, not for a fixed shape."""
from pyvc.spec import contract, eq, implies, iff, forall, exists, indices, raised
from CircuitCalculator.Network import network as nw
from CircuitCalculator.Network import elements as elm
from CircuitCalculator.Network.network import Network, Branch


def any_element(g):
    kind = g.choice('kind', ['Z', 'Y', 'V', 'I', 'short', 'open'])
    name = g.label('id')
    if kind == 'Z':
        return elm.impedance(name, g.complex('Z'))
    if kind == 'Y':
        return elm.admittance(name, g.complex('Y'))
    if kind == 'V':
        return elm.voltage_source(name, g.complex('V'), g.complex('Zi'))
    if kind == 'I':
        return elm.current_source(name, g.complex('I'), g.complex('Yi'))
    if kind == 'short':
        return elm.short_circuit(name)
    return elm.open_circuit(name)


def any_branch(g):
    return Branch(g.label('n1'), g.label('n2'), any_element(g))


def distinct_ids(bs):
    return forall(indices(bs), lambda i: forall(indices(bs), lambda j: implies(i != j, bs[i].id != bs[j].id)))


def touches(bs, node):
    return exists(bs, lambda b: b.node1 == node or b.node2 == node)


@contract('CircuitCalculator.Network.network.Network', props=['C19'], name='Network_invariants_any_length')
class network_invariants:
    """Construction succeeds iff the identifiers are distinct and the reference node is a terminal (or there are no branches)."""
    total = True

    def inputs(g):
        return dict(branches=g.list('b', any_branch), zero=g.label('zero'))

    def call(f, branches, zero):
        return f(branches, zero)

    def ensures(result, branches, zero):
        ok = distinct_ids(branches) and (len(branches) == 0 or touches(branches, zero))
        return {
            'constructed iff valid': iff(not raised(result), ok),
            'ambiguous ids rejected': implies(not distinct_ids(branches) and (len(branches) == 0 or touches(branches, zero)), raised(result, nw.AmbiguousBranchIDs)),
            'floating ground rejected': implies(len(branches) > 0 and not touches(branches, zero), raised(result, nw.FloatingGroundNode)),
        }


def valid(bs, zero):
    return distinct_ids(bs) and (len(bs) == 0 or touches(bs, zero))


@contract('CircuitCalculator.Network.network.Network.__getitem__', props=['C19'], name='Network_getitem_any_length')
class network_getitem:
    """network[id] is the branch with that identifier; an unknown identifier raises KeyError (never a default)."""
    total = True

    def inputs(g):
        return dict(branches=g.list('b', any_branch), zero=g.label('zero'), id=g.label('q'))

    def requires(branches, zero, id):
        return valid(branches, zero)

    def call(f, branches, zero, id):
        return f(Network(branches, zero), id)

    def ensures(result, branches, zero, id):
        known = exists(branches, lambda b: b.id == id)
        return {
            'unknown id raises KeyError': iff(not known, raised(result, KeyError)),
            'known id returns that branch': implies(known, lambda: result.id == id and exists(branches, lambda b: eq(b, result))),
        }


@contract('CircuitCalculator.Network.network.Network.branches_between', props=['C01', 'C19'], name='branches_between_any_length')
class branches_between:
    def inputs(g):
        return dict(branches=g.list('b', any_branch), zero=g.label('zero'), n1=g.label('n1'), n2=g.label('n2'))

    def requires(branches, zero, n1, n2):
        return valid(branches, zero)

    def call(f, branches, zero, n1, n2):
        return f(Network(branches, zero), n1, n2)

    def ensures(result, branches, zero, n1, n2):
        def between(b):
            return (b.node1 == n1 and b.node2 == n2) or (b.node1 == n2 and b.node2 == n1)
        return {
            'only branches between the two nodes': forall(result, lambda b: between(b) and exists(branches, lambda c: eq(c, b))),
            'every branch between the two nodes': forall(branches, lambda b: implies(between(b), lambda: exists(result, lambda c: eq(c, b)))),
            'no more than there are': len(result) <= len(branches),
        }


@contract('CircuitCalculator.Network.network.Network.branches_connected_to', props=['C01', 'C19'], name='branches_connected_to_any_length')
class branches_connected_to:
    def inputs(g):
        return dict(branches=g.list('b', any_branch), zero=g.label('zero'), node=g.label('node'))

    def requires(branches, zero, node):
        return valid(branches, zero)

    def call(f, branches, zero, node):
        return f(Network(branches, zero), node)

    def ensures(result, branches, zero, node):
        def at(b):
            return b.node1 == node or b.node2 == node

        def other(b):
            return b.node1 if b.node1 != node else b.node2
        return {
            'only connected branches': forall(result, lambda b: at(b) and exists(branches, lambda c: eq(c, b))),
            'every connected branch': forall(branches, lambda b: implies(at(b), lambda: exists(result, lambda c: eq(c, b)))),
            'ordered by the far node': forall(indices(result), lambda i: forall(indices(result), lambda j: implies(i < j, lambda: other(result[i]) <= other(result[j])))),
        }


@contract('CircuitCalculator.Network.network.Network.node_labels', props=['C01', 'C03', 'C19'], name='node_labels_any_length')
class node_labels:
    """The node labels are exactly the terminals of the branches, each once, in ascending order."""
    def inputs(g):
        return dict(branches=g.list('b', any_branch, min_len=1), zero=g.label('zero'))

    def requires(branches, zero):
        return valid(branches, zero)

    def call(f, branches, zero):
        return Network(branches, zero).node_labels

    def ensures(result, branches, zero):
        return {
            'every terminal is a node': forall(branches, lambda b: b.node1 in result and b.node2 in result),
            'every node is a terminal': forall(result, lambda n: exists(branches, lambda b: b.node1 == n or b.node2 == n)),
            'strictly ascending (hence no duplicates)': forall(indices(result), lambda i: forall(indices(result), lambda j: implies(i < j, lambda: result[i] < result[j]))),
            'reference node included': zero in result,
        }


@contract('CircuitCalculator.Network.network.Network.is_zero_node', props=['C16', 'C01', 'C03'], name='is_zero_node_any_length')
class is_zero_node:
    """A node is the reference node iff its label EQUALS the reference label (no prefix / substring / case games)."""
    def inputs(g):
        return dict(branches=g.list('b', any_branch), zero=g.label('zero'), node=g.label('node'))

    def requires(branches, zero, node):
        return valid(branches, zero)

    def call(f, branches, zero, node):
        return f(Network(branches, zero), node)

    def ensures(result, branches, zero, node):
        return {'exactly label equality': iff(result, node == zero)}


# ---- the entries of the node admittance matrix, for networks of any length (C01): sums over the incident branches

import numpy as np
from pyvc.spec import total
from CircuitCalculator.Network.NodalAnalysis import node_analysis as na


def finite_branch(g):
    """A branch whose admittance is finite (impedance / admittance / lossy or ideal current source / open circuit)."""
    kind = g.choice('kind', ['Y', 'I', 'open'])
    name = g.label('id')
    if kind == 'Y':
        e = elm.admittance(name, g.complex('Y'))
    elif kind == 'I':
        e = elm.current_source(name, g.complex('I'), g.complex('Yi'))
    else:
        e = elm.open_circuit(name)
    return Branch(g.label('n1'), g.label('n2'), e)


@contract('CircuitCalculator.Network.NodalAnalysis.node_analysis.admittance_connected_to', props=['C01'], name='admittance_connected_to_any_length')
class admittance_connected_to:
    """Diagonal entry: the sum of the admittances of all branches incident to the node (each branch once)."""
    def inputs(g):
        return dict(branches=g.list('b', finite_branch), zero=g.label('zero'), node=g.label('node'))

    def requires(branches, zero, node):
        return valid(branches, zero)

    def call(f, branches, zero, node):
        return f(Network(branches, zero), node)

    def ensures(result, branches, zero, node):
        return {'sum over the incident branches': eq(result, total(branches, lambda b: b.element.Y if (b.node1 == node or b.node2 == node) else 0))}


@contract('CircuitCalculator.Network.NodalAnalysis.node_analysis.admittance_between', props=['C01'], name='admittance_between_any_length')
class admittance_between:
    """Off-diagonal entry: the sum of the admittances of all branches between the two nodes (parallel branches add up)."""
    def inputs(g):
        return dict(branches=g.list('b', finite_branch), zero=g.label('zero'), n1=g.label('n1'), n2=g.label('n2'))

    def requires(branches, zero, n1, n2):
        return valid(branches, zero) and n1 != n2

    def call(f, branches, zero, n1, n2):
        return f(Network(branches, zero), n1, n2)

    def ensures(result, branches, zero, n1, n2):
        def between(b):
            return (b.node1 == n1 and b.node2 == n2) or (b.node1 == n2 and b.node2 == n1)
        return {'sum over the branches between the nodes': eq(result, total(branches, lambda b: b.element.Y if between(b) else 0))}


# ---- network transformations for networks of any length (C16): only the named change happens

from CircuitCalculator.Network import transformers as trf


@contract('CircuitCalculator.Network.transformers.switch_ground_node', props=['C16', 'C03'], name='switch_ground_node_any_length')
class switch_ground:
    total = True

    def inputs(g):
        return dict(branches=g.list('b', any_branch), zero=g.label('zero'), new=g.label('new'))

    def requires(branches, zero, new):
        return valid(branches, zero)

    def call(f, branches, zero, new):
        return f(Network(branches, zero), new)

    def ensures(result, branches, zero, new):
        return {
            'fails iff the new reference is not a node': iff(raised(result), len(branches) > 0 and not touches(branches, new)),
            'typed failure': implies(raised(result), raised(result, nw.FloatingGroundNode)),
            'same branches, new reference': implies(not raised(result), lambda: eq(result.branches, branches) and result.node_zero_label == new),
        }


@contract('CircuitCalculator.Network.transformers.remove_open_circuit_elements', props=['C16'], name='remove_open_circuit_elements_any_length')
class remove_opens:
    total = True

    def inputs(g):
        return dict(branches=g.list('b', any_branch), zero=g.label('zero'))

    def requires(branches, zero):
        return valid(branches, zero)

    def call(f, branches, zero):
        return f(Network(branches, zero))

    def ensures(result, branches, zero):
        def is_open(b):
            return b.element.I == 0 and b.element.Y == 0       # exact, like the library (a tolerance would call 3 GOhm an open circuit)
        kept_touches_zero = exists(branches, lambda b: not is_open(b) and (b.node1 == zero or b.node2 == zero))
        any_kept = exists(branches, lambda b: not is_open(b))
        return {
            'fails only if the reference node is left without a branch': iff(raised(result), any_kept and not kept_touches_zero),
            'typed failure': implies(raised(result), raised(result, nw.FloatingGroundNode)),
            'only open branches disappear': implies(not raised(result), lambda: forall(branches, lambda b: implies(not is_open(b), lambda: exists(result.branches, lambda c: eq(c, b))))),
            'nothing new appears, no open branch survives': implies(not raised(result), lambda: forall(result.branches, lambda c: not is_open(c) and exists(branches, lambda b: eq(b, c)))),
            'same reference': implies(not raised(result), lambda: result.node_zero_label == zero),
        }


def norton_branch(g):
    """Elements stored with (Z, V): impedances, ideal and lossy voltage sources, shorts (no division in their V and Z)."""
    kind = g.choice('kind', ['Z', 'V', 'short'])
    name = g.label('id')
    e = elm.impedance(name, g.complex('Z')) if kind == 'Z' else (elm.voltage_source(name, g.complex('V'), g.complex('Zi')) if kind == 'V' else elm.short_circuit(name))
    return Branch(g.label('n1'), g.label('n2'), e)


@contract('CircuitCalculator.Network.transformers.short_circuitify_voltage_sources', props=['C16', 'C04'], name='short_circuitify_voltage_sources_any_length')
class zero_voltage_sources:
    """Branch i keeps its terminals, identifier and impedance; its source voltage becomes zero; every other element is unchanged
    (elements of the (Z, V) family; the (Y, I) family is covered on the bounded topologies)."""
    def inputs(g):
        return dict(branches=g.list('b', norton_branch), zero=g.label('zero'))

    def requires(branches, zero):
        return valid(branches, zero)

    def call(f, branches, zero):
        return f(Network(branches, zero))

    def ensures(result, branches, zero):
        def same_place(c, b):
            return c.node1 == b.node1 and c.node2 == b.node2 and c.id == b.id

        def zeroed(c, b):
            return same_place(c, b) and (eq(c.element, b.element) if eq(b.element.V, 0) else (eq(c.element.V, 0) and eq(c.element.Z, b.element.Z)))
        return {
            'one branch per branch, same reference': len(result.branches) == len(branches) and result.node_zero_label == zero,
            'branch i: same place, voltage zeroed, impedance kept, non-sources untouched': forall(indices(branches), lambda i: zeroed(result.branches[i], branches[i])),
        }


@contract('CircuitCalculator.Network.transformers.open_circuitify_current_sources', props=['C16', 'C04'], name='open_circuitify_current_sources_any_length')
class zero_current_sources:
    """(Y, I) family: admittances, ideal and lossy current sources, opens."""
    def inputs(g):
        return dict(branches=g.list('b', finite_branch), zero=g.label('zero'))

    def requires(branches, zero):
        return valid(branches, zero)

    def call(f, branches, zero):
        return f(Network(branches, zero))

    def ensures(result, branches, zero):
        def zeroed(c, b):
            same_place = c.node1 == b.node1 and c.node2 == b.node2 and c.id == b.id
            return same_place and (eq(c.element, b.element) if eq(b.element.I, 0) else (eq(c.element.I, 0) and eq(c.element.Y, b.element.Y)))
        return {
            'one branch per branch, same reference': len(result.branches) == len(branches) and result.node_zero_label == zero,
            'branch i: same place, current zeroed, admittance kept, non-sources untouched': forall(indices(branches), lambda i: zeroed(result.branches[i], branches[i])),
        }


# ---- label -> matrix index maps for networks of any length (C03: the only place where label ORDER enters the analysis)

from CircuitCalculator.Network.NodalAnalysis import label_mapping as lm


@contract('CircuitCalculator.Network.NodalAnalysis.label_mapping.alphabetic_node_mapper', props=['C03', 'C01'], name='alphabetic_node_mapper_any_length')
class node_mapper:
    """Every node except the reference gets an index in [0, N); the map is strictly monotone in the label (hence one-to-one), so
    renaming nodes permutes indices consistently and nothing else."""
    def inputs(g):
        return dict(branches=g.list('b', any_branch, min_len=1), zero=g.label('zero'), a=g.label('qa'), b=g.label('qb'))

    def requires(branches, zero, a, b):
        return valid(branches, zero)

    def call(f, branches, zero, a, b):
        m = f(Network(branches, zero))
        return (m, a in m.keys, b in m.keys, zero in m.keys)

    def ensures(result, branches, zero, a, b):
        m, has_a, has_b, has_zero = result
        is_node_a = exists(branches, lambda x: x.node1 == a or x.node2 == a)
        is_node_b = exists(branches, lambda x: x.node1 == b or x.node2 == b)
        return {
            'the reference node has no index': not has_zero,
            'exactly the other nodes are mapped': iff(has_a, is_node_a and a != zero),
            'indices in range': implies(has_a, lambda: 0 <= m[a] and m[a] < m.N),
            'strictly monotone in the label': implies(has_a and has_b and a < b, lambda: m[a] < m[b]),
        }
