"""Bounded stand-ins for DiagramParser / DiagramTranslator / circuit_translator (C13): FIXED drawings (terminal points given
as the schemdraw interface model prescribes: absanchors['start'/'end'] of placed elements), symbolic element values and node
names.  Results are stated independently of set iteration order."""
import schemdraw.util
import numpy as np
from pyvc.spec import contract, eq, implies, iff, raised
from CircuitCalculator.SimpleCircuit import Elements as elm
from CircuitCalculator.SimpleCircuit.DiagramParser import SchematicDiagramParser, MultipleGroundNodes
from CircuitCalculator.SimpleCircuit import DiagramTranslator as dt
from CircuitCalculator.Circuit import components as ccp


def place(element, start, end=None):
    """The element as schemdraw leaves it after placement: absolute terminal points."""
    end = start if end is None else end
    element.absanchors = {'start': schemdraw.util.Point(start), 'end': schemdraw.util.Point(end), 'center': schemdraw.util.Point(start)}
    return element


def drawing(elements):
    s = elm.Schematic()
    s.elements = list(elements)
    return s


def loop_drawing(g, A, order):
    """V1 drawn up from (0,0) to (0,3); wire to (3,3) [labelled A]; R1 down to (3,0); return wire split in two segments; ground at (0,0)."""
    parts = [
        place(elm.VoltageSource(name='V1', V=g.real('V'), reverse=g.bool('rev')), (0, 0), (0, 3)),
        place(elm.Line(), (0, 3), (3, 3)),
        place(elm.Resistor(name='R1', R=g.pos('R')), (3, 3), (3, 0)),
        place(elm.Line(), (3, 0), (1.5, 0)),
        place(elm.Line(), (0, 0), (1.5, 0)),
        place(elm.Ground(), (0, 0)),
        place(elm.LabelNode(name=A), (3.004, 2.996)),        # same point after rounding to 2 digits
    ]
    return drawing([parts[k] for k in order])


def loop_contract(name, order):
    @contract('CircuitCalculator.SimpleCircuit.DiagramTranslator.circuit_translator', props=['C13'], name='loop_' + name,
              bounded='one drawing (source, resistor, three wires, ground, one labelled node), insertion order ' + name, set_order_dependent_result=True)
    class _c:
        def inputs(g):
            A = g.label('A')
            return dict(A=A, schematic=loop_drawing(g, A, order))

        frame = False       # schemdraw objects have no value equality; the parser only reads them

        def requires(A, schematic):
            return A != '0'

        def call(f, A, schematic):
            return f(schematic)

        def ensures(result, A, schematic):
            src = [e for e in schematic.elements if isinstance(e, elm.VoltageSource)][0]
            comps = {c.id: c for c in result.components}
            return {
                'one component per symbol, wires and labels give none': sorted([c.type for c in result.components]) == ['dc_voltage_source', 'ground', 'resistor'],
                'components in drawing order': [c.id for c in result.components] == [e.name for e in schematic.elements if not isinstance(e, (elm.Line, elm.LabelNode))],
                'source: start -> end unless reversed, value as given': eq(comps['V1'].nodes, (A, '0') if src.is_reverse else ('0', A)) and eq(comps['V1'].value['V'], -src.V if src.is_reverse else src.V),
                'resistor terminals': eq(comps['R1'].nodes, (A, '0')) and eq(comps['R1'].value['R'], [e for e in schematic.elements if isinstance(e, elm.Resistor)][0].R),
                'reference node is the ground symbol\'s node': result.ground_node == '0',
            }
    return _c


loop_contract('as_drawn', [0, 1, 2, 3, 4, 5, 6])
loop_contract('reversed', [6, 5, 4, 3, 2, 1, 0])
loop_contract('wires_first', [1, 3, 4, 6, 5, 2, 0])


@contract('CircuitCalculator.SimpleCircuit.DiagramParser.SchematicDiagramParser.node_label_mapping', props=['C13'],
          bounded='one drawing with two labelled and two unlabelled nodes; label names symbolic', set_order_dependent_result=True)
class node_naming:
    """Distinct electrical nodes get distinct names: labelled nodes their label, the others numbers not used as labels."""
    frame = False

    def inputs(g):
        L1, L2 = g.label('L1'), g.label('L2')
        s = drawing([
            place(elm.Resistor(name='R1', R=g.pos('R')), (0, 0), (2, 0)),
            place(elm.Resistor(name='R2', R=g.pos('R')), (2, 0), (4, 0)),
            place(elm.Resistor(name='R3', R=g.pos('R')), (4, 0), (6, 0)),
            place(elm.Line(), (6, 0), (6, 2)),
            place(elm.LabelNode(name=L1), (0, 0)),
            place(elm.LabelNode(name=L2), (6, 2)),
        ])
        return dict(L1=L1, L2=L2, schematic=s)

    def requires(L1, L2, schematic):
        return L1 != L2

    def call(f, L1, L2, schematic):
        p = SchematicDiagramParser(schematic)
        return [p._get_node_index(schemdraw.util.Point(q)) for q in ((0, 0), (2, 0), (4, 0), (6, 0), (6, 2))]

    def ensures(result, L1, L2, schematic):
        a, b, c, d, e = result
        return {
            'labelled nodes carry their label': a == L1 and e == L2,
            'terminals joined by a wire are one node': d == e,
            'distinct nodes have distinct names': a != b and a != c and a != d and b != c and b != d and c != d,
        }


@contract('CircuitCalculator.SimpleCircuit.DiagramParser.SchematicDiagramParser.ground', props=['C13', 'C19'], bounded='one drawing with one or two ground symbols', set_order_dependent_result=True)
class ground_symbols:
    total = True
    frame = False

    def inputs(g):
        two = g.bool('two')
        parts = [place(elm.Resistor(name='R1', R=g.pos('R')), (0, 0), (2, 0)), place(elm.Ground(), (2, 0))]
        if two:
            parts.append(place(elm.Ground(name='gnd2'), (0, 0)))
        return dict(two=two, schematic=drawing(parts))

    def call(f, two, schematic):
        return SchematicDiagramParser(schematic).ground_label

    def ensures(result, two, schematic):
        return {'more than one ground symbol is rejected': iff(raised(result), two),
                'typed': implies(raised(result), raised(result, MultipleGroundNodes)),
                'ground label names the node it sits on': implies(not two, lambda: result == '0')}


@contract('CircuitCalculator.SimpleCircuit.DiagramTranslator.DiagramTranslator.__call__', props=['C13', 'C19'], bounded='one drawing')
class unknown_symbol:
    total = True

    def inputs(g):
        return dict(R=g.pos('R'))

    def call(f, R):
        s = drawing([place(elm.Resistor(name='R1', R=R), (0, 0), (2, 0)), place(elm.Admittance(name='Y1', Y=1 + 1j), (2, 0), (0, 0))])
        return dt.circuit_translator(s)

    def ensures(result, R):
        return {'a symbol without translator is rejected, not dropped': raised(result, dt.UnknownTranslator)}


@contract('CircuitCalculator.SimpleCircuit.DiagramTranslator.circuit_translator', props=['C13'], name='labelled_wire_is_an_element',
          bounded='one drawing with a labelled wire (named short circuit) between two nodes', set_order_dependent_result=True)
class labelled_wire:
    frame = False

    def inputs(g):
        s = drawing([
            place(elm.CurrentSource(name='I1', I=g.real('I')), (0, 0), (0, 3)),
            place(elm.LabeledLine(name='SC1'), (0, 3), (3, 3)),
            place(elm.Resistor(name='R1', R=g.pos('R')), (3, 3), (3, 0)),
            place(elm.Line(), (3, 0), (0, 0)),
            place(elm.Ground(), (0, 0)),
            place(elm.LabelNode(name='A'), (0, 3)),
            place(elm.LabelNode(name='B'), (3, 3)),
        ])
        return dict(schematic=s)

    def ensures(result, schematic):
        comps = {c.id: c for c in result.components}
        return {'the labelled wire is a component between two different nodes': 'SC1' in comps and comps['SC1'].type == 'short_circuit' and eq(comps['SC1'].nodes, ('A', 'B')),
                'its ends are not merged': eq(comps['I1'].nodes, ('0', 'A')) and eq(comps['R1'].nodes, ('B', '0'))}



@contract('CircuitCalculator.SimpleCircuit.DiagramTranslator.circuit_translator', props=['C13'], name='retranslation_after_the_drawing_was_extended',
          bounded='one drawing translated, extended by a wire, translated again', set_order_dependent_result=True)
class retranslation:
    """Translating the SAME drawing object again after it was extended reflects the extension (nothing about the first translation
    is remembered): a resistor whose free end is wired to the ground rail afterwards ends on the reference node."""
    frame = False

    def inputs(g):
        s = drawing([
            place(elm.VoltageSource(name='V1', V=g.real('V')), (0, 0), (0, 3)),
            place(elm.Line(), (0, 3), (3, 3)),
            place(elm.Resistor(name='R1', R=g.pos('R1')), (3, 3), (3, 0)),
            place(elm.Line(), (3, 0), (0, 0)),
            place(elm.Resistor(name='R3', R=g.pos('R3')), (3, 3), (6, 3)),
            place(elm.Ground(), (0, 0)),
            place(elm.LabelNode(name='b'), (3, 3)),
        ])
        return dict(schematic=s)

    def call(f, schematic):
        first = f(schematic)
        schematic.elements.append(place(elm.Line(), (6, 3), (6, 0)))
        schematic.elements.append(place(elm.Line(), (6, 0), (3, 0)))
        second = f(schematic)
        return (first, second)

    def ensures(result, schematic):
        first, second = result
        c1 = {c.id: c for c in first.components}
        c2 = {c.id: c for c in second.components}
        return {'before: the free end of R3 is a node of its own': c1['R3'].nodes[0] == 'b' and c1['R3'].nodes[1] != '0' and c1['R3'].nodes[1] != 'b',
                'after: the end wired to the ground rail is the reference node': eq(c2['R3'].nodes, ('b', '0')),
                'the rest is unchanged': eq(c2['R1'].nodes, c1['R1'].nodes) and eq(c2['V1'].nodes, c1['V1'].nodes)}
