"""Temporary probe: which Python idioms does the interpreter handle?  (not registered for any property)"""
import itertools
import functools
import operator
import collections
from pyvc.spec import lemma, eq


def gen_pairs(xs):
    for i, x in enumerate(xs, start=1):
        yield i, x
    yield from [(0, 0)]


def f_walrus(xs):
    if (n := len(xs)) > 1:
        return n
    return -1


def f_match(kind):
    match kind:
        case 'a':
            return 1
        case 'b' | 'c':
            return 2
        case _:
            return 3


def f_tryelse(d, k):
    try:
        v = d[k]
    except KeyError:
        v = 0
    else:
        v = v + 1
    finally:
        pass
    return v


@functools.lru_cache(maxsize=None)
def cached(x):
    return x * 2


def f_kwonly(a, *, b=2):
    return a + b


Pt = collections.namedtuple('Pt', ['x', 'y'])


def probe(name, fn):
    @lemma(props=[], name='probe_' + name)
    class _c:
        def inputs(g):
            return dict(a=g.real('a'), b=g.real('b'))

        def call(f, a, b):
            return fn(a, b)

        def ensures(result, a, b):
            return {'ok': result}
    return _c


probe('generator', lambda a, b: eq(list(gen_pairs([a, b])), [(1, a), (2, b), (0, 0)]))
probe('walrus', lambda a, b: f_walrus([a, b]) == 2 and f_walrus([a]) == -1)
probe('match', lambda a, b: f_match('a') == 1 and f_match('c') == 2 and f_match('z') == 3)
probe('tryelse', lambda a, b: eq(f_tryelse({'k': a}, 'k'), a + 1) and f_tryelse({}, 'k') == 0)
probe('lru_cache', lambda a, b: eq(cached(3), 6))
probe('kwonly', lambda a, b: eq(f_kwonly(a, b=b), a + b) and eq(f_kwonly(a), a + 2))
probe('chain', lambda a, b: eq(list(itertools.chain([a], [b])), [a, b]) and eq(list(itertools.chain.from_iterable([[a], [b]])), [a, b]))
probe('reduce', lambda a, b: eq(functools.reduce(lambda x, y: x + y, [a, b, 1], 0), a + b + 1))
probe('itemgetter', lambda a, b: eq(operator.itemgetter(1)((a, b)), b) and eq(sorted([(2, a), (1, b)], key=operator.itemgetter(0))[0][1], b))
probe('attrgetter', lambda a, b: eq(operator.attrgetter('x')(Pt(a, b)), a))
probe('namedtuple', lambda a, b: eq(Pt(a, b).y, b) and eq(Pt(x=a, y=b)[0], a))
probe('defaultdict', lambda a, b: eq(_dd(a, b), [a, b]))
probe('counter', lambda a, b: collections.Counter(['x', 'y', 'x'])['x'] == 2)
probe('dict_or', lambda a, b: eq(({'p': a} | {'q': b})['q'], b))
probe('next_default', lambda a, b: next((x for x in [] if x), 7) == 7 and eq(next(iter([a, b])), a))
probe('star_unpack', lambda a, b: eq(_star([a, b, 1]), (a, [b, 1])))
probe('partial', lambda a, b: eq(functools.partial(f_kwonly, b=b)(a), a + b))
probe('setdefault', lambda a, b: eq(_sd(a), [a]))
probe('zip_strict', lambda a, b: eq(list(zip([a], [b], strict=True)), [(a, b)]))
probe('groupby', lambda a, b: [k for k, _ in itertools.groupby(['x', 'x', 'y'])] == ['x', 'y'])
probe('classmethod', lambda a, b: eq(K.make(a).v, a) and eq(K.twice(b), 2 * b))
probe('dict_comp_items', lambda a, b: eq({k: v for k, v in {'p': a}.items()}, {'p': a}))
probe('sum_gen', lambda a, b: eq(sum(x for x in (a, b)), a + b))
probe('minmax', lambda a, b: max([1, 3, 2]) == 3 and min((5, 4)) == 4)
probe('any_gen', lambda a, b: any(x == 'q' for x in ['p', 'q']) and not all(x == 'q' for x in ['p', 'q']))
probe('isinstance', lambda a, b: isinstance([a], list) and isinstance({'k': a}, dict) and not isinstance(a, str))
probe('str_methods', lambda a, b: 'ab'.startswith('a') and 'a_b'.split('_') == ['a', 'b'] and '-'.join(['x', 'y']) == 'x-y')
probe('slice', lambda a, b: eq([a, b, 1][1:], [b, 1]) and eq([a, b][::-1], [b, a]))
probe('nested_comp', lambda a, b: eq([x for row in [[a], [b]] for x in row], [a, b]))


class K:
    def __init__(self, v):
        self.v = v

    @classmethod
    def make(cls, v):
        return cls(v)

    @staticmethod
    def twice(x):
        return 2 * x


def _dd(a, b):
    d = collections.defaultdict(list)
    d['k'].append(a)
    d['k'].append(b)
    return d['k']


def _star(xs):
    first, *rest = xs
    return (first, rest)


def _sd(a):
    d = {}
    d.setdefault('k', []).append(a)
    return d['k']
