#!/usr/bin/env python3
"""Per-property check driver (DESIGN 3.5, 3.9, 3.11).

    python3-vt check.py <PROPERTY> [--tier quick|thorough]
    python3-vt check.py --replay <file>
    python3-vt check.py --all [--tier ...]            (development helper)
    python3-vt check.py --update-ledger               (development helper, never run by a registered command)

Exit codes: 0 every obligation discharged (or covered by a listed known finding); 1 violation (line
"VIOLATION property=<id> replay=<path>"); 2 undecided; 3 checker crash.
"""
from __future__ import annotations
import argparse
import json
import multiprocessing as mp
import os
import sys
import time
import traceback

HERE = os.path.dirname(os.path.abspath(__file__))
sys.path.insert(0, HERE)
REPO = os.environ.get('VERIF_REPO', '/repo')
REPO_SRC = os.path.join(REPO, 'src')

from pyvc import plan          # noqa: E402


def main():
    ap = argparse.ArgumentParser()
    ap.add_argument('prop', nargs='?')
    ap.add_argument('--tier', default=os.environ.get('VERIF_TIER', 'quick'), choices=['quick', 'thorough'])
    ap.add_argument('--replay')
    ap.add_argument('--all', action='store_true')
    ap.add_argument('--update-ledger', action='store_true')
    ap.add_argument('--only', help='comma separated contract names (development)')
    ap.add_argument('--jobs', type=int, default=int(os.environ.get('VERIF_JOBS', '16')))
    ap.add_argument('-v', action='store_true')
    a = ap.parse_args()
    seed = int(os.environ.get('VERIF_SEED', '0') or 0)
    try:
        if a.replay:
            from pyvc import driver
            return driver.replay_file(a.replay, REPO_SRC, HERE)
        from pyvc import driver
        if a.update_ledger:
            return driver.update_ledger(REPO_SRC, HERE, a.jobs)
        props = plan.all_properties() if a.all else [a.prop]
        if not props or props == [None]:
            ap.error('property id required')
        rc = 0
        for p in props:
            r = driver.check_property(p, a.tier, seed, REPO_SRC, HERE, jobs=a.jobs, only=a.only.split(',') if a.only else None, verbose=a.v)
            rc = max(rc, r)
        return rc
    except SystemExit:
        raise
    except Exception:
        traceback.print_exc()
        return 3


if __name__ == '__main__':
    sys.exit(main())
