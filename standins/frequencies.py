"""B-C09f: floating-point behaviour of frequency_components (invisible to exact arithmetic): every harmonic k*w0 with
k*w0 <= w_max (to within 4 ulp) is listed exactly once, nothing above w_max is, and a sinusoidal source whose frequency
equals a harmonic bit-for-bit is not listed twice.   usage: python frequencies.py <tier> <seed> <out.json>"""
import json
import math
import random
import sys

from CircuitCalculator.Circuit import components as ccp
from CircuitCalculator.Circuit.circuit import Circuit, frequency_components


def main(tier, seed, out):
    rng = random.Random(seed)
    w0s = [0.1, 0.2, 0.3, 0.7, 1 / 3, 1.0, 2.0, 3.3, 10.0, 2 * math.pi, 2 * math.pi * 50, 1000.0]
    if tier != 'quick':
        w0s += [rng.uniform(0.05, 500) for _ in range(60)]
    failures, n = [], 0
    for w0 in w0s:
        for kmax in range(0, 13 if tier == 'quick' else 41):
            for w_max in (kmax * w0, kmax * w0 + 0.4 * w0):
                n += 1
                c = Circuit([ccp.resistor('R', ('a', '0'), 1), ccp.periodic_voltage_source('Vp', ('a', '0'), 'rect', V=1, w=w0),
                             ccp.ac_current_source('I2', ('0', 'a'), I=1, w=3 * w0)])
                try:
                    ws = frequency_components(c, w_max)
                except Exception as ex:
                    failures.append({'kind': 'float', 'w0': w0, 'w_max': w_max, 'what': f'raises {type(ex).__name__}: {ex}'})
                    continue
                want = [k * w0 for k in range(kmax + 1)]
                if kmax < 3:
                    want.append(3 * w0)
                missing = [k for k, w in enumerate(want) if not any(abs(w - x) <= 4 * math.ulp(max(w, 1e-300)) for x in ws)]
                extra = [x for x in ws if not any(abs(w - x) <= 4 * math.ulp(max(w, 1e-300)) for w in want)]
                dup = len(ws) != len(set(ws)) or any(b <= a for a, b in zip(ws, ws[1:]))
                if missing or extra or dup:
                    failures.append({'kind': 'float', 'w0': w0, 'w_max': w_max, 'what': f'harmonics missing {missing}, unexpected {extra[:3]}, duplicates/unsorted {dup}'})
    json.dump({'evaluations': n, 'distinct': n, 'failures': failures[:50], 'n_failures': len(failures), 'samples': [{'w0 values': w0s[:12]}],
               'bound': f'{len(w0s)} fundamentals (incl. 0.1, 0.3, 1/3, 2*pi*50) x w_max on and between the first {12 if tier == "quick" else 40} harmonics'}, open(out, 'w'), indent=1)


if __name__ == '__main__':
    main(sys.argv[1], int(sys.argv[2]), sys.argv[3])
