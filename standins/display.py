"""B-C18: bounded stand-in for the number formatting of Utils.py / SimpleCircuit/Display.py (string surgery on repr(float) is
outside the deductive engine).  Runs the REAL code under CPython on a grid and checks the run-time contract:

  the text parses back (sign, mantissa, decimal exponent or SI prefix, unit) to a number within half a unit of the p-th
  significant digit of the value, the exponent is a multiple of three, 1 <= |mantissa| < 1000 (1000 tolerated after a rounding
  carry), the sign is kept; values beyond the prefix range saturate to an infinity sign.

usage: python display.py <tier> <seed> <out.json>
"""
import json
import math
import random
import re
import sys

from CircuitCalculator.Utils import ScientificFloat, ScientificComplex
from CircuitCalculator.SimpleCircuit import Display as dsp

PREFIX = {'p': -12, 'n': -9, 'u': -6, 'μ': -6, 'm': -3, 'c': -1, 'k': 3, 'M': 6, 'G': 9, 'T': 12, '': 0}
NUM = re.compile(r'^(-?)(\d+)(?:\.(\d+))?(?:e(-?\d+))?')


def parse(text, unit, prefixes):
    """-> (value, mantissa, exponent) or None"""
    if unit and not text.endswith(unit):
        return None
    body = text[:len(text) - len(unit)] if unit else text
    pre = ''
    if body and body[-1] in prefixes:
        pre = body[-1]
        body = body[:-1]
    m = NUM.match(body)
    if not m or m.end() != len(body):
        return None
    sign, ip, fp, ex = m.groups()
    mant = float(ip + ('.' + fp if fp else ''))
    e = int(ex) if ex else 0
    e_total = e + (PREFIX[pre] if pre else 0)
    val = (-1 if sign else 1) * mant * 10.0 ** e_total
    return val, (-1 if sign else 1) * mant, e_total, e, pre


def check_float(x, p, use_prefix, table, unit='V'):
    kw = dict(value=x, unit=unit, precision=p, use_exp_prefix=use_prefix)
    if table is not None:
        kw['exp_prefixes'] = table
    text = str(ScientificFloat(**kw))
    prefixes = set((table or {}).values()) if use_prefix else set()
    if use_prefix and table is None:
        prefixes = set('pnumckMGT')
    from decimal import Decimal
    mag = Decimal(abs(x)).adjusted()          # exact floor(log10 |x|)
    rounds_up = abs(x) >= (10 - 0.5 * 10.0 ** (1 - p)) * 10.0 ** mag * (1 - 1e-12)      # rounding to p digits carries into the next decade
    # representable range: the exponent of the last displayed digit lies between the smallest and the largest (prefix) exponent
    lo, hi = (min(table), max(table)) if (use_prefix and table) else ((-12, 12) if use_prefix else (-16, 16))
    e_last = mag - p + 1
    if rounds_up and e_last + 1 >= hi and text in ('∞', '-∞') and (x < 0) == text.startswith('-'):
        return None          # the rounded value lies beyond the range: saturation is the specified behaviour
    if e_last > hi:
        if text not in ('∞', '-∞') or (x < 0) != text.startswith('-'):
            return f'{text!r} should saturate to an infinity sign with the sign of the value'
        return None
    if rounds_up and mag == -1 and text in ('∞', '-∞') and hi < 0:
        # KF-C18-1: the value rounds up to 1.00..0 and is then treated as having exponent 0, beyond a prefix table whose largest exponent is negative
        return 'KIND:carry-to-one-saturates:' + f'{text!r} although the rounded value 1.0 is inside the range'
    r = parse(text, unit, prefixes)
    if r is None:
        return f'unparsable text {text!r}'
    val, mant, e_total, e, pre = r
    tol = 0.5 * 10.0 ** (mag - p + 1) * (1 + 1e-9) + abs(x) * 1e-12
    if abs(val - x) > tol:
        return f'{text!r} parses to {val!r}, more than half a unit of digit {p} away'
    if (val < 0) != (x < 0) and val != 0:
        return f'{text!r} has the wrong sign'
    if x < 0 and not text.startswith('-'):
        return f'{text!r} lost the sign'
    if e_total % 3 != 0 and not (pre == 'c'):
        return f'{text!r}: exponent {e_total} is not a multiple of three'
    if not (1 <= abs(mant) <= 1000) and mant != 0:
        return f'{text!r}: mantissa {mant} outside [1, 1000]'
    return None


def grid(tier, rng):
    ps = [1, 2, 3] if tier == 'quick' else [1, 2, 3, 4]
    exps = range(-15, 16) if tier != 'quick' else range(-13, 14, 1)
    for p in ps:
        lo, hi = 10 ** (p - 1), 10 ** p
        ms = range(lo, hi) if p <= 2 else [rng.randrange(lo, hi) for _ in range(150 if tier == 'quick' else 900)]
        for m in ms:
            for e in exps:
                x = float(f'{m}e{e - p + 1}')
                yield x, p
                if tier != 'quick' or m % 7 == 0:
                    yield math.nextafter(x, math.inf), p
                    yield math.nextafter(x, -math.inf), p
                    yield x * (1 + rng.uniform(-0.4, 0.4) / hi), p
    for p in (5, 6):
        for _ in range(100 if tier == 'quick' else 4000):
            yield rng.uniform(1, 10) * 10.0 ** rng.randint(-15, 15), p
    # mantissas in the top half percent of the decade (where a rounding of a helper string may carry), all exponents
    for p in (3, 4):
        for m in range(10 ** p - 5 * 10 ** (p - 3), 10 ** p):
            for e in range(-15, 16):
                yield float(f'{m}e{e - p + 1}'), p
    # values that round up into the next decade at precision p (rounding carry)
    for p in (1, 2, 3, 4, 5):
        for e in range(-12, 13):
            for c in (0.35, 0.049, 0.5, 0.0001):
                yield (1 - c * 10.0 ** (-p - 1)) * 10.0 ** e, p
                yield (10 - c * 10.0 ** (-p)) * 10.0 ** e, p


DISPLAY_TABLES = [({-6: 'u', -3: 'm', 3: 'k'}, 'V'), ({-3: 'm', 3: 'k', 6: 'M', 9: 'G'}, 'Ω'), ({-12: 'p', -9: 'n', -6: 'μ', -3: 'm'}, 'F'),
                  ({-9: 'n', -6: 'μ', -3: 'm'}, 'H'), ({-3: 'm', 3: 'k', 6: 'M', 9: 'G', 12: 'T'}, 'Hz')]


def main(tier, seed, out):
    rng = random.Random(seed)
    n = 0
    failures = []
    distinct = set()
    samples = []
    for x, p in grid(tier, rng):
        for sign in (1, -1):
            v = sign * x
            for use_prefix, table, unit in [(False, None, 'V')] + [(True, t, u) for t, u in (DISPLAY_TABLES if (n % 5 == 0 or tier != 'quick') else DISPLAY_TABLES[:1])]:
                # values outside the prefix table range are rendered with an extra exponent; all are inside the representable range
                n += 1
                try:
                    msg = check_float(v, p, use_prefix, table, unit)
                except Exception as ex:      # the real code must not raise either
                    msg = f'raises {type(ex).__name__}: {ex}'
                if msg:
                    kind = 'failure'
                    if msg.startswith('KIND:'):
                        _, kind, msg = msg.split(':', 2)
                    failures.append({'value': repr(v), 'precision': p, 'use_exp_prefix': use_prefix, 'prefixes': table, 'unit': unit, 'what': msg, 'kind': kind})
                elif len(samples) < 5 and n % 997 == 0:
                    samples.append({'value': repr(v), 'precision': p, 'text': str(ScientificFloat(value=v, unit=unit, precision=p, use_exp_prefix=use_prefix, **({'exp_prefixes': table} if table else {})))})
                distinct.add((repr(v), p))
    # complex rendering: signs of both parts, four quadrants; every decade in which BOTH parts are inside the representable range
    # of the helper's prefix table (last displayed digit between the smallest and the largest prefix exponent), any ratio
    def half_unit(x, p):
        return 0.5 * 10.0 ** (math.floor(math.log10(abs(x))) - p + 1) * 1.000001

    for printer, unit, lo_e, hi_e, prefixes in ((lambda z: dsp.print_complex(z, unit='V', precision=3), 'V', -6, 3, set('umk')),
                                                (lambda z: dsp.print_impedance(z, precision=3), 'Ω', -3, 9, set('mkMG'))):
        mags = list(range(lo_e + 2, hi_e + 3))           # p = 3: last digit exponent = magnitude - 2
        cases = [(ma, mb) for ma in mags for mb in mags]
        if tier == 'quick':
            cases = [c for c in cases if c[0] in (mags[0], mags[-1]) or c[1] in (mags[0], mags[-1]) or rng.random() < 0.3]
        for ma, mb in cases:
            for _ in range(2 if tier == 'quick' else 12):
                a = rng.choice([-1, 1]) * rng.choice([1.0, 5.0, rng.uniform(1, 9.9)]) * 10.0 ** ma
                b = rng.choice([-1, 1]) * rng.choice([1.0, 5.0, rng.uniform(1, 9.9)]) * 10.0 ** mb
                n += 1
                try:
                    text = printer(complex(a, b))
                except Exception as ex:
                    failures.append({'value': repr(complex(a, b)), 'precision': 3, 'what': f'raises {type(ex).__name__}: {ex}', 'kind': 'complex'})
                    continue
                m = re.match(r'^(-?) ?([^j]*?) ?([+-]) ?j(.*)$', text)
                ok = m is not None and ((m.group(1) == '-') == (a < 0)) and ((m.group(3) == '-') == (b < 0))
                if ok:
                    ra = parse(m.group(2).strip(), unit, prefixes)
                    rb = parse(m.group(4).strip(), unit, prefixes)
                    ok = ra is not None and rb is not None and abs(ra[0] - abs(a)) <= half_unit(a, 3) and abs(rb[0] - abs(b)) <= half_unit(b, 3)
                if not ok:
                    failures.append({'value': repr(complex(a, b)), 'precision': 3, 'what': f'complex text {text!r} does not denote both parts of the value', 'kind': 'complex'})
    # polar form: magnitude to p digits, angle to the printed decimals (4 in radians, 2 in degrees); the angle may only be left out
    # when it is at most one unit of its last printed decimal
    for _ in range(300 if tier == 'quick' else 6000):
        deg = rng.random() < 0.5
        mag = rng.uniform(1, 9.99) * 10.0 ** rng.randint(-4, 4)
        ang = rng.choice([-1, 1]) * rng.choice([rng.uniform(0, math.pi), 10.0 ** rng.uniform(-6, 0), 10.0 ** rng.uniform(-3, -1)])
        z = complex(mag * math.cos(ang), mag * math.sin(ang))
        n += 1
        try:
            text = dsp.print_complex(z, unit='V', precision=3, polar=True, deg=deg)
        except Exception as ex:
            failures.append({'value': repr(z), 'precision': 3, 'what': f'polar print raises {type(ex).__name__}: {ex}', 'kind': 'polar'})
            continue
        shown = math.degrees(ang) if deg else ang
        unit_last = 1e-2 if deg else 1e-4
        if '∠' in text:
            m_txt, a_txt = text.split('∠', 1)
            a_txt = a_txt.rstrip('°')
            try:
                a_val = float(a_txt)
                ok = abs(a_val - shown) <= 0.5 * unit_last * 1.0001 + 1e-12
            except ValueError:
                ok = False
        else:
            m_txt = text
            ok = abs(shown) <= unit_last * 1.0001
        rm = parse(m_txt, 'V', set('umk'))
        ok = ok and rm is not None and abs(rm[0] - mag) <= half_unit(mag, 3)
        if not ok:
            failures.append({'value': repr(z), 'precision': 3, 'what': f'polar text {text!r} (deg={deg}) does not denote magnitude {mag!r} and angle {shown!r}', 'kind': 'polar'})
    # sinusoidal labels: amplitude and frequency (in Hz and in rad/s) carry the requested precision
    for _ in range(150 if tier == 'quick' else 3000):
        p = rng.choice([3, 4, 5])
        amp = rng.uniform(1, 9.99) * 10.0 ** rng.randint(-4, 4)
        w = rng.uniform(1, 9.99) * 10.0 ** rng.randint(-1, 7)
        hertz = rng.random() < 0.5
        n += 1
        try:
            text = dsp.print_sinosoidal(complex(amp, 0), unit='V', precision=p, w=w, hertz=hertz)
        except Exception as ex:
            failures.append({'value': repr((amp, w)), 'precision': p, 'what': f'print_sinosoidal raises {type(ex).__name__}: {ex}', 'kind': 'sinusoidal'})
            continue
        m = re.match(r'^(.*?)·cos\((2π·)?(.*?)·t\)$', text)
        ok = m is not None and (m.group(2) is not None) == hertz
        if ok:
            ra = parse(m.group(1), 'V', set('umk'))
            f = w / 2 / math.pi if hertz else w
            rf = parse(m.group(3), 'Hz' if hertz else '/s', set('mkMGT') if hertz else set())
            ok = ra is not None and rf is not None and abs(ra[0] - amp) <= half_unit(amp, p) and abs(rf[0] - f) <= half_unit(f, p)
        if not ok:
            failures.append({'value': repr((amp, w)), 'precision': p, 'what': f'sinusoidal text {text!r} (hertz={hertz}) does not carry amplitude and frequency with {p} digits', 'kind': 'sinusoidal'})
    # saturation beyond the exponent range
    for v in (1e20, -3e21, 2.5e25):
        n += 1
        t = str(ScientificFloat(value=v, precision=3))
        if '∞' not in t or (v < 0) != t.startswith('-'):
            failures.append({'value': repr(v), 'precision': 3, 'what': f'{t!r} should saturate to an infinity sign', 'kind': 'saturation'})
    json.dump({'evaluations': n, 'distinct': len(distinct), 'failures': failures[:200], 'n_failures': len(failures), 'samples': samples,
               'bound': f'tier {tier}: p-digit decimal mantissas x powers of ten 1e-15..1e15 (exhaustive for p<=2, sampled for p>=3), float neighbours, both signs, 5 prefix tables; p=5,6 sampled; complex values: every pair of decades inside the representable range of print_complex / print_impedance x four quadrants (sampled mantissas), polar form with angles down to 1e-6 (radians and degrees), sinusoidal labels (amplitude and frequency in Hz and rad/s at p = 3..5)'},
              open(out, 'w'), indent=1)


if __name__ == '__main__':
    main(sys.argv[1], int(sys.argv[2]), sys.argv[3])
