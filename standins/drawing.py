"""B-C13g / B-C15: bounded stand-ins on REAL schemdraw drawings (geometry and JSON persistence are outside the interface model).

B-C13g  the loop  V1 - R1 - R2 - wire - ground  with a labelled node is drawn in 4 rotations x 2 drawing units x split/unsplit return
        wire x both reversal flags of the source x several insertion orders of the non-placement-dependent symbols; the translated
        circuit must have the intended components and its DC solution must equal the solution of the intended netlist.
B-C15   every persistable symbol kind x reversal x (deg, sin) flags is saved to JSON and reloaded three times; after every cycle the
        translated circuit must have the same components (ids, kinds, values, terminal order up to node renaming, reference node).

usage: python drawing.py <tier> <seed> <out.json>
"""
import itertools
import json
import math
import random
import sys

import matplotlib
matplotlib.use('Agg')
from CircuitCalculator.SimpleCircuit import Elements as elm
from CircuitCalculator.SimpleCircuit.DiagramTranslator import circuit_translator
from CircuitCalculator.SimpleCircuit import dump_load as sdl
from CircuitCalculator.Circuit import components as ccp
from CircuitCalculator.Circuit.circuit import Circuit
from CircuitCalculator.Circuit.solution import DCSolution, ComplexSolution

ROT = ['up', 'right', 'down', 'left']          # clockwise


def turn(direction, k):
    return ROT[(ROT.index(direction) + k) % 4]


def go(element, direction, length=None):
    return getattr(element, direction)(length) if length is not None else getattr(element, direction)()


def build_loop(rotation, unit, split, reverse, shuffle):
    s = elm.Schematic(unit=unit)
    v = go(elm.VoltageSource(V=6, name='V1', reverse=reverse), turn('up', rotation))
    s += v
    r1 = go(elm.Resistor(R=10, name='R1'), turn('right', rotation))
    s += r1
    r2 = go(elm.Resistor(R=20, name='R2'), turn('down', rotation))
    s += r2
    if split:
        s += go(elm.Line(), turn('left', rotation), unit / 2)
        s += go(elm.Line(), turn('left', rotation), unit / 2)
    else:
        s += go(elm.Line(), turn('left', rotation))
    late = [elm.Ground().at(v.start), elm.LabelNode(name='A').at(r1.end)]
    if shuffle:
        late.reverse()
    for e in late:
        s += e
    return s


def reference_solution(reverse):
    nodes = ('A0', 'g') if reverse else ('g', 'A0')
    c = Circuit([ccp.dc_voltage_source('V1', nodes, V=6), ccp.resistor('R1', ('A0', 'A'), 10), ccp.resistor('R2', ('A', 'g'), 20), ccp.ground(nodes=('g',))])
    return DCSolution(c)


def close(a, b):
    return abs(a - b) <= 1e-9 * max(1.0, abs(a), abs(b))


def geometry(tier, failures):
    n = 0
    units = [3, 7] if tier == 'quick' else [2, 3, 7, 10]
    for rotation, unit, split, reverse, shuffle in itertools.product(range(4), units, (False, True), (False, True), (False, True)):
        n += 1
        case = {'rotation': rotation * 90, 'unit': unit, 'split_wire': split, 'reverse': reverse, 'labels_added_in_reverse_order': shuffle}
        try:
            circuit = circuit_translator(build_loop(rotation, unit, split, reverse, shuffle))
            kinds = sorted((c.type, c.id) for c in circuit.components)
            if kinds != [('dc_voltage_source', 'V1'), ('ground', '0'), ('resistor', 'R1'), ('resistor', 'R2')]:
                failures.append({'kind': 'geometry', 'case': case, 'what': f'components {kinds}'})
                continue
            sol, ref = DCSolution(circuit), reference_solution(reverse)
            bad = [q for q in ('V1', 'R1', 'R2') if not (close(sol.get_voltage(q), ref.get_voltage(q)) and close(sol.get_current(q), ref.get_current(q)))]
            if not close(sol.get_potential('A'), ref.get_potential('A')) or circuit.ground_node != '0':
                bad.append('potential A / ground')
            if bad:
                failures.append({'kind': 'geometry', 'case': case, 'what': f'solution differs from the intended netlist for {bad}',
                                 'got': {q: [sol.get_voltage(q), sol.get_current(q)] for q in ('V1', 'R1', 'R2')}})
        except Exception as ex:
            failures.append({'kind': 'geometry', 'case': case, 'what': f'raises {type(ex).__name__}: {ex}'})
    return n


def persistable(rng):
    """(constructor, kwargs) of every symbol kind the loader can rebuild."""
    out = []
    for rev in (False, True):
        out.append(('VoltageSource', dict(V=5.0, name='Q', reverse=rev)))
        out.append(('CurrentSource', dict(I=0.25, name='Q', reverse=rev)))
        out.append(('ComplexVoltageSource', dict(V=3 + 4j, name='Q', reverse=rev)))
        out.append(('ComplexCurrentSource', dict(I=1 - 2j, name='Q', reverse=rev)))
        # a sine-reference source whose translated phase is exactly 0, and an explicit zero phase
        out.append(('ACVoltageSource', dict(V=2.0, w=50.0, phi=math.pi / 2, name='Q', reverse=rev, sin=True)))
        out.append(('ACCurrentSource', dict(I=2.0, w=50.0, phi=0.0, name='Q', reverse=rev, deg=True)))
        for deg, sin in itertools.product((False, True), repeat=2):
            out.append(('ACVoltageSource', dict(V=2.0, w=50.0, phi=30.0 if deg else 0.5, name='Q', reverse=rev, deg=deg, sin=sin)))
            out.append(('ACCurrentSource', dict(I=2.0, w=50.0, phi=30.0 if deg else 0.5, name='Q', reverse=rev, deg=deg, sin=sin)))
            out.append(('RectVoltageSource', dict(V=2.0, w=50.0, phi=30.0 if deg else 0.5, name='Q', reverse=rev, deg=deg, sin=sin)))
            out.append(('RectCurrentSource', dict(I=2.0, w=50.0, phi=30.0 if deg else 0.5, name='Q', reverse=rev, deg=deg, sin=sin)))
    out += [('Resistor', dict(R=47.0, name='Q')), ('Conductance', dict(G=0.02, name='Q')), ('Impedance', dict(Z=3 + 4j, name='Q')),
            ('Capacitor', dict(C=1e-6, name='Q')), ('Inductance', dict(L=2e-3, name='Q'))]
    return out


def fingerprint(circuit):
    """Components with node names replaced by their order of first appearance (connectivity up to renaming)."""
    names = {}

    def nid(x):
        return names.setdefault(x, len(names))
    comps = []
    for c in circuit.components:
        comps.append((c.type, c.id, tuple(nid(x) for x in c.nodes), tuple(sorted((k, round(v, 12) if isinstance(v, float) else v) for k, v in c.value.items()))))
    return comps, nid(circuit.ground_node)


def persistence(tier, rng, failures):
    n = 0
    for cname, kw in persistable(rng):
        n += 1
        case = {'symbol': cname, 'kwargs': {k: (str(v) if isinstance(v, complex) else v) for k, v in kw.items()}}
        try:
            s = elm.Schematic(unit=7)
            q = getattr(elm, cname)(**kw).up()
            s += q
            s += elm.Resistor(R=10, name='R0').right()
            s += elm.Line().down()
            s += elm.Line().left()
            s += elm.Ground().at(q.start)
            want = fingerprint(circuit_translator(s))
            cur = s
            for cycle in range(1, 4):
                cur = sdl.deserialize(sdl.serialize(cur, 'json'), 'json')
                got = fingerprint(circuit_translator(cur))
                if got != want:
                    failures.append({'kind': 'persistence' + (':phase-flags' if (kw.get('deg') or kw.get('sin')) else ''), 'case': case, 'cycle': cycle,
                                     'what': 'reloaded drawing translates to a different circuit',
                                     'want': repr(want)[:400], 'got': repr(got)[:400]})
                    break
        except Exception as ex:
            failures.append({'kind': 'persistence', 'case': case, 'what': f'raises {type(ex).__name__}: {ex}'})
    return n


def declarative(tier, failures):
    """A declarative element list (with place_after and unnamed wires) gives the same circuit as the programmatic construction."""
    from CircuitCalculator.SimpleSimulation.schematic import create_schematic
    n = 0
    for extra_wires_first in (0, 1, 2):
        for reverse in (False, True):
            n += 1
            elements = [{'type': 'line', 'direction': 'right'} for _ in range(extra_wires_first)]
            elements += [
                {'type': 'voltage_source', 'name': 'V1', 'V': 12, 'direction': 'up', 'reverse': reverse},
                {'type': 'resistor', 'name': 'R1', 'R': 4, 'direction': 'right'},
                {'type': 'line', 'direction': 'right'},
                {'type': 'resistor', 'name': 'R2', 'R': 6, 'direction': 'down'},
                {'type': 'line', 'direction': 'left'},
                {'type': 'line', 'direction': 'left'},
                {'type': 'resistor', 'name': 'R3', 'R': 3, 'direction': 'down', 'place_after': 'R1'},
                {'type': 'ground', 'name': '0', 'place_after': 'R3'},
            ]
            case = {'unnamed wires before the first symbol': extra_wires_first, 'reverse': reverse}
            try:
                s = create_schematic({'unit': 7, 'elements': elements})
                p = elm.Schematic(unit=7)
                for _ in range(extra_wires_first):
                    p += elm.Line().right(7)
                p += elm.VoltageSource(V=12, name='V1', reverse=reverse).up(7)
                p += (r1 := elm.Resistor(R=4, name='R1').right(7))
                p += elm.Line().right(7)
                p += elm.Resistor(R=6, name='R2').down(7)
                p += elm.Line().left(7)
                p += elm.Line().left(7)
                p += (r3 := elm.Resistor(R=3, name='R3').down(7).at(r1.end))
                p += elm.Ground(name='0').at(r3.end)
                got, want = fingerprint(circuit_translator(s)), fingerprint(circuit_translator(p))
                if got != want:
                    failures.append({'kind': 'declarative', 'case': case, 'what': 'declarative list and programmatic construction give different circuits',
                                     'want': repr(want)[:400], 'got': repr(got)[:400]})
            except Exception as ex:
                failures.append({'kind': 'declarative', 'case': case, 'what': f'raises {type(ex).__name__}: {ex}'})
    return n


def main(tier, seed, out):
    rng = random.Random(seed)
    failures = []
    n1 = geometry(tier, failures)
    n2 = persistence(tier, rng, failures) + declarative(tier, failures)
    json.dump({'evaluations': n1 + n2, 'distinct': n1 + n2, 'failures': failures[:100], 'n_failures': len(failures),
               'samples': [{'geometry cases': n1, 'persistence cases (x3 cycles)': n2}],
               'bound': f'{n1} drawings of one loop (4 rotations x units x split x reversal x label order); {n2} persistable symbol variants x 3 save/load cycles and declarative lists'},
              open(out, 'w'), indent=1, default=str)


if __name__ == '__main__':
    main(sys.argv[1], int(sys.argv[2]), sys.argv[3])
