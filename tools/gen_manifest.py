#!/usr/bin/env python3
"""Regenerate MANIFEST.json from pyvc/plan_props.py (claimed properties) and tools/manifest_text.json (texts)."""
import json, os, sys
HERE = os.path.dirname(os.path.dirname(os.path.abspath(__file__)))
sys.path.insert(0, HERE)
from pyvc import plan
texts = json.load(open(os.path.join(HERE, 'tools', 'manifest_text.json')))
props = [json.loads(l) for l in open(os.path.join(HERE, 'properties.jsonl'))]
checks, na = [], []
for p in props:
    pid = p['id']
    if pid in plan.PROPS and pid in texts['claimed']:
        t = texts['claimed'][pid]
        checks.append({
            'property_id': pid,
            'quick_cmd': f'python3-vt check.py {pid} --tier quick',
            'thorough_cmd': f'python3-vt check.py {pid} --tier thorough',
            'evidence_file': f'evidence/{pid}.json',
            'replay_cmd_template': 'python3-vt check.py --replay {path}',
            'engine': 'pyvc',
            'level_claimed': {'category': plan.PROPS[pid]['level'], 'text': t['text'], 'design_ref': t.get('design_ref', 'DESIGN.md sec. 8 / ' + pid)},
            'level_note': t['note'],
            'technique': t['technique'],
        })
    else:
        na.append({'property_id': pid, 'reason': texts['not_applicable'].get(pid, 'check not built')})
m = {
    'version': 1,
    'setup_cmd': 'python3-vt setup.py',
    'hooks': {'guard': 'CIRCUITCALCULATOR_VERIF',
              'enable': 'no repository line depends on the guard: contracts are sidecar files under /verif/contracts keyed by qualified function name; checks parse /repo/src with ast on every run and replay with PYTHONPATH=/repo/src /venv/bin/python',
              'baseline_off_cmd': 'cd /repo && /venv/bin/python -m pytest -ra -q -p no:cacheprovider --timeout=900 --continue-on-collection-errors',
              'source_commits': [], 'add_only': True},
    'engines': [{'name': 'pyvc', 'path': 'pyvc/', 'serves_properties': [c['property_id'] for c in checks],
                 'kind_free_text': 'own verification-condition generator: symbolic execution of the real function bodies (ast of /repo/src re-parsed on every run) against sidecar contracts, obligations discharged by z3 (cvc5 second opinion) and a ring-normalisation back end; counter-models replayed on the real code under CPython'}],
    'checks': checks,
    'notes': texts['notes'],
    'not_applicable': na,
}
json.dump(m, open(os.path.join(HERE, 'MANIFEST.json'), 'w'), indent=1)
print('claimed', [c['property_id'] for c in checks])
