#!/usr/bin/env python3
"""Evaluate a seeded change: confirm (in a scratch worktree) that its demonstration passes without and fails with the
patch, run the registered checks against the patched tree, and store the result under /verif/seeded/<id>/.

    python3 tools/seed_eval.py <id> <patch.diff> <demo.py> <meta.json> [--props C07,C02] [--keep]
"""
import argparse, json, os, shutil, subprocess, sys, time

VERIF = os.path.dirname(os.path.dirname(os.path.abspath(__file__)))


def sh(cmd, **kw):
    return subprocess.run(cmd, shell=True, capture_output=True, text=True, **kw)


def main():
    ap = argparse.ArgumentParser()
    ap.add_argument('id'); ap.add_argument('patch'); ap.add_argument('demo'); ap.add_argument('meta')
    ap.add_argument('--props'); ap.add_argument('--tier', default='quick')
    a = ap.parse_args()
    _dest = os.path.join(VERIF, 'seeded', a.id)
    if os.path.isdir(_dest) and os.path.abspath(a.patch) != os.path.join(_dest, 'patch.diff'):
        sys.exit(f'seeded/{a.id} already exists: choose a fresh id (a stored seed is only re-evaluated from its own files)')
    wt = f'/tmp/seedwt/{a.id}'
    sh(f'git -C /repo worktree remove --force {wt}')
    os.makedirs('/tmp/seedwt', exist_ok=True)
    r = sh(f'git -C /repo worktree add --detach {wt} HEAD')
    assert r.returncode == 0, r.stderr
    out = {'id': a.id}
    try:
        meta = json.load(open(a.meta))
        if 'author_ran' in meta:        # re-evaluation of a stored seed
            meta = dict(meta, ran=meta.get('author_ran'))
        env = dict(os.environ, PYTHONPATH=f'{wt}/src', MPLBACKEND='Agg')
        import re
        demo_src = re.sub(r'/tmp/mutwt[2-9]?/C\d+', wt, open(a.demo).read())     # demos may assert the path of the author's worktree
        demo_run = os.path.join(wt, '_demo_under_evaluation.py')
        open(demo_run, 'w').write(demo_src)
        d0 = subprocess.run(['/venv/bin/python', demo_run], env=env, capture_output=True, text=True, cwd=wt)
        out['demo_clean_exit'] = d0.returncode
        ap_ = sh(f'git -C {wt} apply --3way {os.path.abspath(a.patch)} || git -C {wt} apply {os.path.abspath(a.patch)}')
        out['patch_applies'] = ap_.returncode == 0
        if ap_.returncode != 0:
            out['apply_error'] = ap_.stderr[-500:]
        else:
            d1 = subprocess.run(['/venv/bin/python', demo_run], env=env, capture_output=True, text=True, cwd=wt)
            out['demo_patched_exit'] = d1.returncode
            out['demo_patched_tail'] = (d1.stdout + d1.stderr)[-400:]
            imp = subprocess.run(['/venv/bin/python', '-c', 'import CircuitCalculator.Circuit.solution, CircuitCalculator.Network.loaders, CircuitCalculator.dump_load'],
                                 env=env, capture_output=True, text=True)
            out['imports_ok'] = imp.returncode == 0
            props = a.props.split(',') if a.props else [meta.get('property')]
            out['checks'] = {}
            for p in props:
                t = time.time()
                c = subprocess.run(['python3-vt', 'check.py', p, '--tier', a.tier], env=dict(os.environ, VERIF_REPO=wt), capture_output=True, text=True, cwd=VERIF)
                lines = [l for l in c.stdout.splitlines() if l.startswith(('VIOLATION', 'UNDECIDED', 'KNOWN-FINDING', '  failed'))]
                out['checks'][p] = {'exit': c.returncode, 'lines': lines[:12], 'wall_s': round(time.time() - t, 1), 'stderr': c.stderr[-300:] if c.returncode == 3 else ''}
        dest = os.path.join(VERIF, 'seeded', a.id)
        os.makedirs(dest, exist_ok=True)
        for src, name in ((a.patch, 'patch.diff'), (a.demo, 'demo.py')):
            if os.path.abspath(src) != os.path.abspath(os.path.join(dest, name)):
                shutil.copy(src, os.path.join(dest, name))
        meta_out = {'property': meta.get('property'), 'summary': meta.get('summary'), 'needs': meta.get('needs'), 'files': meta.get('files'),
                    'author_ran': meta.get('ran'), 'evaluation': out,
                    'what_i_ran': [f'git worktree add {wt}', f'PYTHONPATH={wt}/src /venv/bin/python demo.py (clean: exit {out.get("demo_clean_exit")}, patched: exit {out.get("demo_patched_exit")})',
                                   'VERIF_REPO=<worktree> python3-vt check.py <prop> for ' + ','.join(out.get('checks', {}))]}
        json.dump(meta_out, open(os.path.join(dest, 'meta.json'), 'w'), indent=1)
        print(json.dumps(out, indent=1))
    finally:
        sh(f'git -C /repo worktree remove --force {wt}')
        # evidence files were rewritten by the runs against the patched tree; regenerate them against /repo later


if __name__ == '__main__':
    main()
