#!/usr/bin/env python3
"""Regenerate the seeded-change table of DESIGN.md (between the SEED-TABLE markers) from seeded/*/meta.json."""
import json, os, re
HERE = os.path.dirname(os.path.dirname(os.path.abspath(__file__)))
rows = []
stats = {'total': 0, 'caught': 0, 'na': 0, 'nomanifest': 0, 'missed': []}
for d in sorted(os.listdir(os.path.join(HERE, 'seeded')), key=lambda x: (x.split('-')[0], int(x.split('-')[1]))):
    m = json.load(open(os.path.join(HERE, 'seeded', d, 'meta.json')))
    ev = m['evaluation']
    chk = ev.get('checks', {})
    caught = [k for k, v in chk.items() if v['exit'] == 1]
    first = ''
    for k, v in chk.items():
        for l in v['lines']:
            if l.strip().startswith('failed obligation'):
                first = l.strip().replace('failed obligation: ', '')
                break
        if first:
            break
    summ = (m.get('summary') or '').replace('|', '/').replace('\n', ' ')
    summ = summ[:120] + ('…' if len(summ) > 120 else '')
    stats['total'] += 1
    if not ev.get('patch_applies'):
        res = 'does not apply to the repaired tree'
        stats['na'] += 1
    elif ev.get('demo_patched_exit') == 0:
        res = 'no longer manifests (demo passes)'
        stats['nomanifest'] += 1
    elif caught:
        res = ','.join(caught) + ': `' + first[:110] + '`'
        stats['caught'] += 1
    else:
        res = 'MISSED (' + ', '.join(f'{k} exit {v["exit"]}' for k, v in chk.items()) + ')'
        stats['missed'].append(d)
    rows.append(f'| {d} | {summ} | {res} |')
table = '| seed | change | caught by (first failing obligation) |\n|---|---|---|\n' + '\n'.join(rows)
p = os.path.join(HERE, 'DESIGN.md')
s = open(p).read()
s = re.sub(r'<!-- SEED-TABLE-BEGIN -->.*?<!-- SEED-TABLE-END -->', lambda _: '<!-- SEED-TABLE-BEGIN -->\n' + table + '\n<!-- SEED-TABLE-END -->', s, flags=re.S)
open(p, 'w').write(s)
print(stats)
