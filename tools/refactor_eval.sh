#!/bin/bash
# usage: tools/refactor_eval.sh <P> <i> <check>...  -> applies /verif/refactorings/<P>-<i>/refactor.diff (a behaviour-preserving refactoring) in a scratch worktree and runs the given checks against it; every check is expected to exit 0
P=$1; i=$2; shift 2
wt=/tmp/seedwt/rf-$P-$i
git -C /repo worktree remove --force $wt 2>/dev/null
mkdir -p /tmp/seedwt
git -C /repo worktree add -q --detach $wt HEAD || exit 9
if ! git -C $wt apply /verif/refactorings/$P-$i/refactor.diff 2>/tmp/rf-$P-$i.applyerr; then echo "rf-$P-$i DOES-NOT-APPLY"; git -C /repo worktree remove --force $wt; exit 0; fi
res=""
for c in "$@"; do
  out=$(cd /verif && VERIF_REPO=$wt python3-vt check.py $c --tier quick 2>&1)
  rc=$?
  res="$res $c=$rc"
  if [ $rc -ne 0 ]; then echo "$out" | grep -v "^KNOWN" | tail -6 > /tmp/rf-$P-$i-$c.log; fi
done
echo "rf-$P-$i$res"
git -C /repo worktree remove --force $wt
