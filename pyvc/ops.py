"""Operators on the value domain: arithmetic, comparison, truth, equality, merging."""
from __future__ import annotations
import math
import operator
from fractions import Fraction
import z3
from .values import (CTX, SNum, SBool, SLabel, SChoice, Inst, ClassVal, IDict, ISet, Opaque, OutOfSubset, PyRaise,
                     lift, rv, to_real, force, is_concrete_num, label_term, zbool, fresh_complex, fresh_real)

ZERO = z3.RealVal(0)


def raise_py(name, *args):
    from .builtins_ import make_exception
    raise PyRaise(make_exception(name, *args))


# ---------------------------------------------------------------------------------------------
# normalisation of tagged numbers

def norm_num(x):
    """Turn a tagged SNum into a finite SNum or a concrete inf/nan by forking on the tag."""
    if isinstance(x, SNum) and x.tag is not None:
        p = CTX.path
        if p.branch(x.tag == 0):
            return SNum(x.re, x.im, None, x.np)
        if p.branch(x.tag == 1):
            return math.inf
        return math.nan
    return x


def _is_sym(x):
    return isinstance(x, SNum)


def _simp(t):
    return z3.simplify(t)


def _pi_multiple(t):
    """If t is c*pi or c*sqrt2 (c a non-zero rational numeral) return (c, inverse-constant) else None."""
    from .builtins_ import PI, SQRT2, INV_PI, INV_SQRT2
    t = z3.simplify(t)
    for sym, inv in ((PI, INV_PI), (SQRT2, INV_SQRT2)):
        if t.eq(sym):
            return z3.RealVal(1), inv
        if z3.is_mul(t) and t.num_args() == 2:
            a, b = t.arg(0), t.arg(1)
            if z3.is_rational_value(a) and b.eq(sym) and a.numerator_as_long() != 0:
                return a, inv
            if z3.is_rational_value(b) and a.eq(sym) and b.numerator_as_long() != 0:
                return b, inv
    return None


def _mk(re, im, np_):
    if im is not None:
        ims = z3.simplify(im, som=True)
        if z3.is_rational_value(ims) and ims.numerator_as_long() == 0:
            im = None
        else:
            im = ims
    return SNum(z3.simplify(re, som=True), im, None, np_)


def _same_sort(a, b):
    if a.sort() == b.sort():
        return a, b
    return to_real(a), to_real(b)


def _nonfinite_arith(op, a, b):
    """a or b is a concrete inf/nan (float); the other may be symbolic-finite.  Sign of inf is not tracked."""
    def kind(x):
        if isinstance(x, SNum):
            return 'fin'
        if isinstance(x, complex):
            if math.isnan(x.real) or math.isnan(x.imag):
                return 'nan'
            if math.isinf(x.real) or math.isinf(x.imag):
                return 'inf'
            return 'fin'
        x = float(x)
        return 'nan' if math.isnan(x) else ('inf' if math.isinf(x) else 'fin')
    ka, kb = kind(a), kind(b)
    if 'nan' in (ka, kb):
        return math.nan
    if op in ('+', '-'):
        return math.nan if ka == kb == 'inf' else math.inf
    if op == '*':
        fin = a if ka == 'fin' else b
        if ka == kb == 'inf':
            return math.inf
        z = truth(eq_value(fin, 0))
        return math.nan if z else math.inf
    if op == '/':
        if ka == 'fin' and kb == 'inf':
            return 0.0
        if ka == 'inf' and kb == 'fin':
            return math.inf
        return math.nan
    raise OutOfSubset(f'non-finite operand for {op}')


def _conc_nonfinite(x):
    if isinstance(x, float):
        return not math.isfinite(x)
    if isinstance(x, complex):
        return not (math.isfinite(x.real) and math.isfinite(x.imag))
    return False


def arith(op, a, b):
    a, b = norm_num(force(a)), norm_num(force(b))
    if isinstance(a, Opaque) or isinstance(b, Opaque):
        return Opaque('arithmetic on an opaque library value')
    if is_concrete_num(a) and is_concrete_num(b):
        return _concrete_arith(op, a, b)
    if not (isinstance(a, (SNum,)) or is_concrete_num(a)) or not (isinstance(b, SNum) or is_concrete_num(b)):
        if isinstance(a, Inst) or isinstance(b, Inst) or a is None or b is None:
            raise_py('TypeError', f'unsupported operand type(s) for {op}')
        raise OutOfSubset(f'arithmetic {op} on {type(a).__name__}, {type(b).__name__}')
    if _conc_nonfinite(a) or _conc_nonfinite(b):
        return _nonfinite_arith(op, a, b)
    x, y = lift(a), lift(b)
    np_ = x.np or y.np
    if op in ('+', '-'):
        f = operator.add if op == '+' else operator.sub
        if x.im is None and y.im is None:
            p, q = _same_sort(x.re, y.re)
            return _mk(f(p, q), None, np_)
        return _mk(f(x.rez(), y.rez()), f(x.imz(), y.imz()), np_)
    if op == '*':
        if x.im is None and y.im is None:
            p, q = _same_sort(x.re, y.re)
            return _mk(p * q, None, np_)
        a_, b_, c_, d_ = x.rez(), x.imz(), y.rez(), y.imz()
        return _mk(a_ * c_ - b_ * d_, a_ * d_ + b_ * c_, np_)
    if op == '/':
        zero = truth(eq_value(y, 0))
        if zero:
            if np_:
                r = fresh_complex('divz', np=True)
                r.tag = z3.Int(CTX.fresh('divz.tag'))
                CTX.path.assume(z3.And(r.tag >= 1, r.tag <= 2))
                return norm_num(r)
            raise_py('ZeroDivisionError')
        if y.im is None:
            c_ = y.rez()
            pm = _pi_multiple(c_)
            if pm is not None:
                k, inv = pm
                if x.im is None:
                    return _mk(x.rez() * inv / k, None, np_)
                return _mk(x.rez() * inv / k, x.imz() * inv / k, np_)
            if x.im is None:
                return _mk(x.rez() / c_, None, np_)
            return _mk(x.rez() / c_, x.imz() / c_, np_)
        a_, b_, c_, d_ = x.rez(), x.imz(), y.rez(), y.imz()
        den = c_ * c_ + d_ * d_
        return _mk((a_ * c_ + b_ * d_) / den, (b_ * c_ - a_ * d_) / den, np_)
    if op == '**':
        if isinstance(b, int) and not isinstance(b, bool):
            n = b
            if n == 0:
                return 1
            r = x
            for _ in range(abs(n) - 1):
                r = arith('*', r, x)
            return arith('/', 1, r) if n < 0 else r
        if isinstance(b, float) and b == 0.5:
            from .builtins_ import sym_sqrt
            return sym_sqrt(x)
        raise OutOfSubset('** with symbolic or non-integer exponent')
    if op == '%':
        if x.im is not None or y.im is not None:
            raise OutOfSubset('% on complex')
        if not x.is_int and isinstance(b, int) and not isinstance(b, bool) and b > 0:
            xs = z3.simplify(x.re)
            if z3.is_app(xs) and xs.decl().kind() == z3.Z3_OP_TO_REAL:
                # integer-valued float: float % int is the integer remainder, as a float
                return _mk(z3.ToReal(xs.arg(0) % z3.IntVal(b)), None, np_)
        if x.is_int and y.is_int:
            if not (isinstance(b, int) and b > 0):
                raise OutOfSubset('integer % with non-constant or non-positive modulus')
            return _mk(x.re % y.re, None, np_)
        if truth(eq_value(y, 0)):
            if np_:
                return math.nan
            raise_py('ZeroDivisionError')
        q = z3.ToReal(z3.ToInt(x.rez() / y.rez()))
        return _mk(x.rez() - y.rez() * q, None, np_)
    if op == '//':
        if x.is_int and y.is_int and isinstance(b, int) and b > 0:
            return _mk(x.re / y.re, None, np_)
        if x.im is None and y.im is None:
            if truth(eq_value(y, 0)):
                if np_:
                    return math.nan
                raise_py('ZeroDivisionError')
            return _mk(z3.ToReal(z3.ToInt(x.rez() / y.rez())), None, np_)      # floor(x / y), exact arithmetic
        raise OutOfSubset('// on complex numbers')
    raise OutOfSubset(f'operator {op}')


def _concrete_arith(op, a, b):
    try:
        if op == '+':
            return a + b
        if op == '-':
            return a - b
        if op == '*':
            return a * b
        if op == '/':
            return a / b
        if op == '**':
            return a ** b
        if op == '%':
            return a % b
        if op == '//':
            return a // b
    except ZeroDivisionError:
        raise_py('ZeroDivisionError')
    except OverflowError:
        raise_py('OverflowError')
    raise OutOfSubset(f'operator {op}')


def neg(a):
    a = norm_num(force(a))
    if isinstance(a, Opaque):
        return a
    if is_concrete_num(a):
        return -a
    if isinstance(a, SNum):
        return _mk(-a.re, None if a.im is None else -a.im, a.np)
    raise OutOfSubset(f'unary - on {type(a).__name__}')


def conj(a):
    a = norm_num(force(a))
    if is_concrete_num(a):
        return a.conjugate() if isinstance(a, complex) else a
    if isinstance(a, SNum):
        return _mk(a.re, None if a.im is None else -a.im, a.np)
    if isinstance(a, Inst):
        raise_py('TypeError', f'{a.cls.name} has no callable conjugate method')
    raise OutOfSubset('conjugate of non-number')


def real_part(a):
    a = norm_num(force(a))
    if is_concrete_num(a):
        return a.real
    return SNum(a.re, None, None, a.np)


def imag_part(a):
    a = norm_num(force(a))
    if is_concrete_num(a):
        return a.imag
    if a.im is None:
        return 0.0
    return SNum(a.im, None, None, a.np)


def num_abs(a):
    a = norm_num(force(a))
    if is_concrete_num(a):
        return abs(a)
    if a.im is None:
        return _mk(z3.If(a.re >= 0, a.re, -a.re), None, a.np)
    # |z| = r with r >= 0 and r^2 = re^2 + im^2
    r = fresh_real('abs', np=a.np)
    CTX.path.assume(z3.And(r.re >= 0, r.re * r.re == a.rez() * a.rez() + a.imz() * a.imz()))
    return r


def compare(op, a, b):
    """Ordering comparisons on reals and labels -> bool | SBool."""
    a, b = norm_num(force(a)), norm_num(force(b))
    if isinstance(a, (str, SLabel)) and isinstance(b, (str, SLabel)):
        if isinstance(a, str) and isinstance(b, str):
            return _PYCMP[op](a, b)
        return SBool(_PYCMP[op](label_term(a), label_term(b)))
    if is_concrete_num(a) and is_concrete_num(b):
        if isinstance(a, complex) or isinstance(b, complex):
            raise_py('TypeError')
        return _PYCMP[op](a, b)
    if isinstance(a, (tuple, list)) and isinstance(b, (tuple, list)) and type(a) == type(b):
        return _lex_compare(op, a, b)
    if not ((isinstance(a, SNum) or is_concrete_num(a)) and (isinstance(b, SNum) or is_concrete_num(b))):
        raise OutOfSubset(f'ordering of {type(a).__name__} and {type(b).__name__}')
    for v, o in ((a, b), (b, a)):
        if _conc_nonfinite(v):
            v = float(v.real) if isinstance(v, complex) else float(v)
            if math.isnan(v):
                return False
            pos = v > 0
            first = v is a
            lt = (not pos) if first else pos      # a<b ?
            return {'<': lt, '<=': lt, '>': not lt, '>=': not lt}[op]
    x, y = lift(a), lift(b)
    if x.im is not None or y.im is not None:
        raise OutOfSubset('ordering comparison of complex numbers')
    # |z| compared with 0 is decided on the parts of z (no square root needed)
    for u, v, o in ((x, b, op), (y, a, {'<': '>', '<=': '>=', '>': '<', '>=': '<='}[op])):
        if getattr(u, 'absof', None) is not None and is_concrete_num(v) and not isinstance(v, complex) and v == 0:
            re_, im_ = u.absof
            zero = z3.And(re_ == 0, im_ == 0)
            return {'>': _sb(z3.Not(zero)), '>=': True, '<': False, '<=': _sb(zero)}[o]
    p, q = _same_sort(x.re, y.re)
    return SBool(z3.simplify(_PYCMP[op](p, q)))


def _lex_compare(op, a, b):
    for x, y in zip(a, b):
        if truth(eq_value(x, y)):
            continue
        return compare(op if op in ('<', '>') else op[0], x, y)
    return _PYCMP[op](len(a), len(b))


_PYCMP = {'<': operator.lt, '<=': operator.le, '>': operator.gt, '>=': operator.ge}


def s_and(*xs):
    ts = []
    for x in xs:
        if isinstance(x, bool):
            if not x:
                return False
        else:
            ts.append(zbool(x))
    if not ts:
        return True
    return SBool(z3.simplify(z3.And(*ts)))


def s_or(*xs):
    ts = []
    for x in xs:
        if isinstance(x, bool):
            if x:
                return True
        else:
            ts.append(zbool(x))
    if not ts:
        return False
    return SBool(z3.simplify(z3.Or(*ts)))


def s_not(x):
    if isinstance(x, bool):
        return not x
    return SBool(z3.simplify(z3.Not(zbool(x))))


def dataclass_fields(cls):
    out = []
    for c in reversed(cls.mro):
        if getattr(c, 'dataclass', None):
            for f in c.dataclass['fields']:
                if f['name'] not in [g['name'] for g in out]:
                    out.append(f)
    return out


def is_dataclass(cls):
    return any(getattr(c, 'dataclass', None) for c in cls.mro)


def eq_value(a, b):
    """Python == on interpreter values -> bool | SBool (never forks except through SChoice)."""
    a, b = force(a), force(b)
    if a is b and not isinstance(a, (float, SNum)):
        return True
    if a is None or b is None:
        return a is b
    if isinstance(a, (bool, SBool)) and isinstance(b, (bool, SBool)):
        if isinstance(a, bool) and isinstance(b, bool):
            return a == b
        return SBool(z3.simplify(zbool(a) == zbool(b)))
    an = isinstance(a, SNum) or is_concrete_num(a)
    bn = isinstance(b, SNum) or is_concrete_num(b)
    if an and bn:
        a, b = norm_num(a), norm_num(b)
        if is_concrete_num(a) and is_concrete_num(b):
            return a == b
        if _conc_nonfinite(a) or _conc_nonfinite(b):
            return False
        x, y = lift(a), lift(b)
        for u, v in ((x, b), (y, a)):
            if getattr(u, 'absof', None) is not None and is_concrete_num(v) and v == 0:
                return _sb(z3.And(u.absof[0] == 0, u.absof[1] == 0))
        if x.im is None and y.im is None:
            p, q = _same_sort(x.re, y.re)
            return _sb(p == q)
        return _sb(z3.And(x.rez() == y.rez(), x.imz() == y.imz()))
    al, bl = isinstance(a, (str, SLabel)), isinstance(b, (str, SLabel))
    if al and bl:
        if isinstance(a, str) and isinstance(b, str):
            return a == b
        return _sb(_label_eq(label_term(a), label_term(b)))
    if (an and bl) or (al and bn):
        return False
    if isinstance(a, (tuple, list)) and isinstance(b, (tuple, list)):
        if isinstance(a, tuple) != isinstance(b, tuple):
            return False
        if len(a) != len(b):
            return False
        return s_and(*[eq_value(x, y) for x, y in zip(a, b)])
    if isinstance(a, Inst) and isinstance(b, Inst):
        if is_dataclass(a.cls):
            if a.cls is not b.cls:
                return False
            return s_and(*[eq_value(a.attrs[f['name']], b.attrs[f['name']]) for f in dataclass_fields(a.cls) if f.get('compare', True)])
        return a is b
    if isinstance(a, IDict) and isinstance(b, IDict):
        if len(a) != len(b):
            return False
        conj_ = []
        for k, v in a.items():
            if not all(isinstance(k2, str) for k2 in b.keys()) or not isinstance(k, str):
                raise OutOfSubset('equality of dictionaries with symbolic keys')
            if k not in b.keys():
                return False
            conj_.append(eq_value(v, b.get(k)))
        return s_and(*conj_)
    if isinstance(a, ISet) and isinstance(b, ISet):
        # set equality: mutual inclusion
        def subset(p, q):
            return s_and(*[s_or(*[eq_value(x, y) for y in q.elems]) for x in p.elems])
        return s_and(subset(a, b), subset(b, a))
    from .abstract import AList, abstract_eq
    from .seq import ASet, ADict
    if isinstance(a, (AList, ASet, ADict)) or isinstance(b, (AList, ASet, ADict)):
        return abstract_eq(a, b)
    from .values import AbstractCall
    if isinstance(a, AbstractCall) or isinstance(b, AbstractCall):
        if not (isinstance(a, AbstractCall) and isinstance(b, AbstractCall)) or a.name != b.name or set(a.args) != set(b.args):
            return False
        return s_and(*[eq_value(a.args[k], b.args[k]) for k in a.args])
    if isinstance(a, Opaque) or isinstance(b, Opaque):
        # a comparison involving an unmodelled library value has an unknown outcome: an unconstrained symbolic boolean
        return SBool(z3.Bool(CTX.fresh('opaque.eq')))
    if type(a) != type(b):
        return False
    return a is b


def _is_str_const(t):
    return z3.is_const(t) and t.decl().kind() == z3.Z3_OP_UNINTERPRETED and t.decl().name().startswith('str:')


def _label_eq(s, t, depth=0):
    """Equality of label terms; conditionals over concrete strings are resolved (distinct concrete strings are different)."""
    if s.eq(t):
        return z3.BoolVal(True)
    if _is_str_const(s) and _is_str_const(t):
        return z3.BoolVal(s.decl().name() == t.decl().name())
    if depth < 40:
        if z3.is_app_of(s, z3.Z3_OP_ITE) and (_is_str_const(t) or z3.is_app_of(t, z3.Z3_OP_ITE)):
            return z3.simplify(z3.If(s.arg(0), _label_eq(s.arg(1), t, depth + 1), _label_eq(s.arg(2), t, depth + 1)))
        if z3.is_app_of(t, z3.Z3_OP_ITE) and _is_str_const(s):
            return z3.simplify(z3.If(t.arg(0), _label_eq(s, t.arg(1), depth + 1), _label_eq(s, t.arg(2), depth + 1)))
    return s == t


def _sb(t):
    t = z3.simplify(t)
    if z3.is_true(t):
        return True
    if z3.is_false(t):
        return False
    return SBool(t)


def truth(v) -> bool:
    """Python truthiness; forks the current path on symbolic values."""
    v = force(v)
    if isinstance(v, bool):
        return v
    if isinstance(v, SBool):
        return CTX.path.branch(v.t)
    if v is None:
        return False
    if isinstance(v, SNum):
        v = norm_num(v)
        if isinstance(v, SNum):
            return CTX.path.branch(zbool(s_not(eq_value(v, 0))))
    if is_concrete_num(v):
        return bool(v)
    if isinstance(v, (str, tuple, list, IDict, ISet)):
        return len(v) > 0
    if isinstance(v, SLabel):
        raise OutOfSubset('truthiness of symbolic string')
    from .abstract import AList
    from .seq import ASet, ADict
    if isinstance(v, (AList, ASet, ADict)):
        return CTX.path.branch(v.length > 0)
    if isinstance(v, Opaque):
        raise OutOfSubset('truthiness of opaque value')
    return True


# ---------------------------------------------------------------------------------------------
# merging of alternatives (used at the boundary of nested explorations)

def merge(alts):
    """alts: list of (z3 Bool cond, value), conditions exclusive and exhaustive (under the enclosing path)."""
    alts = [(c, force_free(v)) for c, v in alts]
    if len(alts) == 1:
        return alts[0][1]
    vals = [v for _, v in alts]
    first = vals[0]
    if all(_identical(first, v) for v in vals[1:]):
        return first
    if all(isinstance(v, (bool, SBool)) for v in vals):
        return _sb(z3.Or(*[z3.And(c, zbool(v)) for c, v in alts]))
    if all(isinstance(v, SNum) or is_concrete_num(v) for v in vals) and not any(isinstance(v, bool) for v in vals):
        ls = [lift(v) for v in vals]
        all_int = all(l.is_int for l in ls)
        def ite(sel):
            t = sel(ls[-1])
            for (c, _), l in zip(reversed(alts[:-1]), reversed(ls[:-1])):
                t = z3.If(c, sel(l), t)
            return z3.simplify(t)
        re = ite((lambda l: l.re) if all_int else (lambda l: l.rez()))
        im = None if all(l.im is None for l in ls) else ite(lambda l: l.imz())
        tag = None if all(l.tag is None for l in ls) else ite(lambda l: l.tag if l.tag is not None else z3.IntVal(0))
        return SNum(re, im, tag, any(l.np for l in ls))
    if all(isinstance(v, (str, SLabel)) for v in vals):
        t = label_term(vals[-1])
        for (c, v) in reversed(alts[:-1]):
            t = z3.If(c, label_term(v), t)
        return SLabel(z3.simplify(t))
    if all(isinstance(v, Inst) for v in vals) and all(v.cls is first.cls for v in vals) and is_dataclass(first.cls) \
            and all(set(v.attrs) == set(first.attrs) for v in vals):
        return Inst(first.cls, {k: merge([(c, v.attrs[k]) for c, v in alts]) for k in first.attrs})
    if all(isinstance(v, tuple) for v in vals) and all(len(v) == len(first) for v in vals):
        return tuple(merge([(c, v[i]) for c, v in alts]) for i in range(len(first)))
    return SChoice(alts)


def force_free(v):
    return v


def _identical(a, b):
    if a is b:
        return True
    if type(a) != type(b):
        return False
    if isinstance(a, (int, float, complex, str, bool)):
        return a == b or (isinstance(a, float) and math.isnan(a) and math.isnan(b))
    if isinstance(a, SNum):
        return a.re.eq(b.re) and ((a.im is None and b.im is None) or (a.im is not None and b.im is not None and a.im.eq(b.im))) and a.tag is None and b.tag is None
    if isinstance(a, SLabel):
        return a.t.eq(b.t)
    if isinstance(a, SBool):
        return a.t.eq(b.t)
    if isinstance(a, tuple):
        return len(a) == len(b) and all(_identical(x, y) for x, y in zip(a, b))
    return False
