"""Interface model of schemdraw 0.19 (DESIGN sec. 4, C13-C15): what the SimpleCircuit layer relies on, nothing about geometry.

* every schemdraw element class is one permissive base: the constructor accepts any arguments and stores the keyword
  arguments in `_userparams` (as schemdraw's Element.__new__ does); `anchors`, `params`, `absanchors` are dictionaries,
  `segments` a list; placement / styling methods (`up`, `down`, `left`, `right`, `at`, `label`, ...) return the element
  and have no effect visible to the netlist logic; any other attribute raises AttributeError (so that `hasattr(e, 'name')`
  distinguishes circuit symbols from plain drawing elements);
* the terminal points of a *placed* element are `absanchors['start']` and `absanchors['end']`; contracts set them
  directly (they describe the drawing after placement) - schemdraw's own placement geometry is not modelled;
* `schemdraw.util.Point((x, y))` is a pair with `.x`, `.y` and component-wise subtraction;
* `schemdraw.Drawing` holds the list `elements`.
"""
from __future__ import annotations
from .values import ClassVal, Inst, Builtin, Opaque, IDict, force, OutOfSubset
from .builtins_ import StubModule, _B
from .ops import raise_py

CHAIN_METHODS = {'label', 'at', 'up', 'down', 'left', 'right', 'to', 'tox', 'toy', 'length', 'color', 'fill', 'theta', 'reverse', 'flip', 'anchor',
                 'drop', 'hold', 'scale', 'linewidth', 'linestyle', 'zorder', 'dot', 'idot', 'endpoints', 'style', 'delta', 'shift', 'label_at'}
OPAQUE_METHODS = {'get_bbox', '_place_label', '_place', 'draw', 'save', 'clear', 'get_imagedata'}


def prepare(inst, kwargs):
    """What schemdraw's Element.__new__ does before any __init__ runs: remember the constructor keywords, create the dictionaries."""
    inst.attrs.setdefault('_userparams', IDict(list(kwargs.items())))
    inst.attrs.setdefault('anchors', IDict())
    inst.attrs.setdefault('params', IDict())
    inst.attrs.setdefault('absanchors', IDict())
    inst.attrs.setdefault('segments', [])
    inst.attrs.setdefault('elements', [])
    inst.attrs.setdefault('fig', None)


def _init(args, kw):
    self = args[0]
    if isinstance(self, Inst):
        self.attrs.setdefault('_userparams', IDict(list(kw.items())))
        self.attrs.setdefault('anchors', IDict())
        self.attrs.setdefault('params', IDict())
        self.attrs.setdefault('absanchors', IDict())
        self.attrs.setdefault('segments', [])
        self.attrs.setdefault('elements', [])
        self.attrs.setdefault('fig', None)
    return None


def _native_getattr(I, inst, name):
    if name in CHAIN_METHODS:
        return Builtin('schemdraw.' + name, lambda a, k: inst)
    if name in OPAQUE_METHODS:
        return Builtin('schemdraw.' + name, lambda a, k: Opaque('schemdraw.' + name))
    if name in ('start', 'end', 'center'):
        a = inst.attrs.get('absanchors')
        if a is not None and a.has(name):
            return a.get(name)
    if name == 'absdrop':
        a = inst.attrs.get('absanchors')
        if a is not None and a.has('end'):
            return (a.get('end'), 0)
    if name in ('transform', 'v_label', 's_label', 'i_label', 'value_label', 'center', 'bbox', 'unit'):
        return Opaque('schemdraw placement data ' + name)
    if name == '__iadd__':
        def iadd(args, kw):
            inst.attrs.setdefault('elements', []).append(args[0])
            return inst
        return Builtin('Drawing.__iadd__', iadd)
    if name == 'add':
        def add(args, kw):
            inst.attrs.setdefault('elements', []).append(args[0])
            return args[0]
        return Builtin('Drawing.add', add)
    raise_py('AttributeError', f'{inst.cls.name} object has no attribute {name}')


BASE = ClassVal('SchemdrawObject', [], {}, None)
_b = Builtin('SchemdrawObject.__init__', _init)
_b.is_method = True
BASE.ns['__init__'] = _b
BASE.native_getattr = _native_getattr


def _instantiate_base(I, cls, args, kwargs):
    inst = Inst(cls, {})
    _init([inst] + list(args), kwargs)
    return inst


BASE.native_new = None


def point(p):
    p = force(p)
    vals = I_iter(p)
    return (vals[0], vals[1])


def I_iter(p):
    from .builtins_ import interp_ref
    return interp_ref[0].iterate(p)


class _Mod(StubModule):
    def get(self, name):
        if name in self.table:
            return self.table[name]
        if name and name[0].isupper():
            return BASE            # every class of the library is the permissive base
        if name in ('elements', 'util', 'segments', 'transform', 'lines', 'twoterm', 'switches', 'compound', 'sources', 'flow', 'dsp', 'logic'):
            return module(self.name + '.' + name)
        return Opaque(f'{self.name}.{name}')


_MODS = {}


def module(dotted):
    if dotted not in _MODS:
        table = {}
        if dotted == 'schemdraw.util':
            table['Point'] = _B('Point', point)
        _MODS[dotted] = _Mod(dotted, table)
    return _MODS[dotted]
