"""pyvc - a small verification-condition generator for the Python subset used by
csiegl182/CircuitCalculator.  See /verif/DESIGN.md sec. 3.

The package has two halves that never import each other's heavy dependencies:

* the *symbolic* half (interp, values, engine, frame) runs under python3-vt and needs z3;
* the *concrete* half (spec, replay) is pure Python and runs under /venv/bin/python with
  PYTHONPATH=/repo/src so that the very same sidecar contracts can be evaluated against the real code.
"""
