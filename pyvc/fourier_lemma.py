"""Fourier-integral lemma for C08: the closed forms are the true Fourier coefficients of the pieces.

The contracts in contracts/periodic.py prove, for the REAL code, (a) that amplitude(n) / phase(n) / a / b / c equal the spec
table `spec_amplitude` / `spec_phase` for every integer n and all real parameters, and (b) that the time function of the three
piecewise waveforms equals the piece table `PIECES` on every open piece of the period.  This lemma closes the gap between the
two tables: for each piecewise waveform and for ALL harmonic orders (n = 0, every odd n = 2m+1, every even n = 2m+2 with a
symbolic integer m >= 0) it integrates the piece table exactly,

        c_n = (1/T) * sum over pieces  Integral_{lo*T}^{hi*T} value(u) * exp(-j*n*w0*(u - t0)) du ,   w0 = 2*pi/T, t0 = phi*T/(2*pi)

(the Fourier coefficient of t -> g((t + t0) mod T) over one period, after the substitution u = t + t0), and compares it with
amplitude(n)/2 * exp(j*phase(n)) for n >= 1 and with amplitude(0) for n = 0, where amplitude/phase are obtained by EVALUATING
THE CONTRACT'S OWN spec functions on symbolic arguments (numpy's pi replaced by the exact pi).  Parseval's identity
(1/T) Integral g^2 = a0^2 + sum_n amplitude(n)^2 / 2 is checked with the exact values of the series (zeta(2), zeta(4)).

Back end: sympy (exact symbolic integration and simplification) - a computer-algebra computation, not an SMT or proof-assistant
proof; sympy's `integrate`/`simplify` on polynomial-times-exponential integrands is part of the trusted base for these
obligations (recorded as such in the evidence).  cos / sin / const need no integral: their series is their definition.

Run:  python3-vt -m pyvc.fourier_lemma <repo_src> <verif_dir>   -> JSON list of obligations on stdout
"""
from __future__ import annotations
import json
import subprocess
import sys
import time


class ParityInt:
    """A positive integer of known parity (or the number 0) wrapping a sympy expression: lets the contract's spec functions, which
    test `n % 2 == 1`, `n == 0`, `n == 1`, be evaluated for a whole residue class at once."""

    def __init__(self, e, parity, is_zero=False):
        self.e, self.parity, self.is_zero = e, parity, is_zero

    def __mod__(self, k):
        assert k == 2
        return self.parity

    def __eq__(self, k):
        if k == 0:
            return self.is_zero
        if k == 1:
            return False if self.is_zero else bool(self.e == 1)
        return NotImplemented

    def __ne__(self, k):
        r = self.__eq__(k)
        return r if r is NotImplemented else not r

    __hash__ = None

    def __mul__(self, o):
        return self.e * (o.e if isinstance(o, ParityInt) else o)

    __rmul__ = __mul__

    def __rtruediv__(self, o):
        return o / self.e

    def __neg__(self):
        return -self.e


def main(repo_src, verif, kinds=('rect', 'tri', 'saw')):
    sys.path[:0] = [repo_src, verif]
    import sympy as sp
    import contracts.periodic as cp

    class Shim:
        pi = sp.pi

        @staticmethod
        def floor(x):
            return sp.floor(x)
    cp.np = Shim
    A, phi, off = sp.symbols('A phi off', real=True)
    T = sp.symbols('T', positive=True)
    u = sp.symbols('u', real=True)
    m = sp.symbols('m', integer=True, nonnegative=True)
    w0 = 2 * sp.pi / T
    t0 = phi * T / (2 * sp.pi)
    obs = []

    def zero(expr):
        e = sp.simplify(sp.expand(sp.simplify(expr).rewrite(sp.cos), complex=True))
        if e == 0:
            return True
        e = sp.simplify(sp.expand_trig(sp.expand(e)))
        return e == 0

    import os
    if os.environ.get('FOURIER_LEMMA_SELFTEST'):      # deliberately wrong table: every obligation that mentions it must fail
        _orig = cp.spec_amplitude
        cp.spec_amplitude = lambda kind, n, A, phi, off: 2 * _orig(kind, n, A, phi, off) if not (n == 0) else _orig(kind, n, A, phi, off)
    for kind in kinds:
        pieces = cp.PIECES[kind]
        classes = [('n = 0', ParityInt(sp.Integer(0), 0, True), sp.Integer(0)),
                   ('every odd n = 2m+1', ParityInt(2 * m + 1, 1), 2 * m + 1),
                   ('every even n = 2m+2', ParityInt(2 * m + 2, 0), 2 * m + 2)]
        for label, pn, n in classes:
            t1 = time.time()
            try:
                c = 0
                for lo, hi, value in pieces:
                    lo, hi = sp.nsimplify(lo), sp.nsimplify(hi)
                    c += sp.integrate(value(u, T, A, off) * sp.exp(-sp.I * n * w0 * (u - t0)), (u, lo * T, hi * T))
                c = c / T
                amp = cp.spec_amplitude(kind, pn, A, phi, off)
                ph = cp.spec_phase(kind, pn, A, phi, off)
                expected = amp if pn.is_zero else sp.Rational(1, 2) * amp * sp.exp(sp.I * ph)
                ok = zero(c - expected)
                detail = f'(1/T)*Integral of the piece table times exp(-j n w0 (u - t0)) == {"amplitude(0)" if pn.is_zero else "amplitude(n)/2 * exp(j phase(n))"} for {label}'
                obs.append({'id': f'lemma:fourier:{kind}:{label}', 'status': 'discharged' if ok else 'failed', 'backend': 'sympy (exact integration)',
                            'ms': int((time.time() - t1) * 1000), 'detail': detail if ok else detail + f'; residue {sp.simplify(c - expected)}',
                            'function': f'CircuitCalculator.SignalProcessing.periodic_functions.{cp.HARMONICS[kind].__name__}', 'replayed': False})
            except Exception as ex:      # noqa: an unevaluable lemma is undecided, never a violation
                obs.append({'id': f'lemma:fourier:{kind}:{label}', 'status': 'undecided', 'backend': 'sympy', 'ms': int((time.time() - t1) * 1000),
                            'detail': f'{type(ex).__name__}: {ex}'})
        # Parseval: mean square of the pieces = a0^2 + sum amplitude(n)^2 / 2   (zero offset part separated: cross term integrates to the mean)
        t1 = time.time()
        try:
            ms = sum(sp.integrate(value(u, T, A, off) ** 2, (u, sp.nsimplify(lo) * T, sp.nsimplify(hi) * T)) for lo, hi, value in pieces) / T
            k = sp.symbols('k', integer=True, positive=True)
            odd = ParityInt(2 * k - 1, 1)
            even = ParityInt(2 * k, 0)
            series = cp.spec_amplitude(kind, ParityInt(sp.Integer(0), 0, True), A, phi, off) ** 2
            series += sp.summation(sp.simplify(cp.spec_amplitude(kind, odd, A, phi, off) ** 2 / 2), (k, 1, sp.oo))
            series += sp.summation(sp.simplify(cp.spec_amplitude(kind, even, A, phi, off) ** 2 / 2), (k, 1, sp.oo))
            ok = sp.simplify(ms - series) == 0
            obs.append({'id': f'lemma:parseval:{kind}', 'status': 'discharged' if ok else 'failed', 'backend': 'sympy (exact integration and summation)',
                        'ms': int((time.time() - t1) * 1000), 'replayed': False,
                        'detail': 'mean square of the piece table over one period == amplitude(0)^2 + sum_{n>=1} amplitude(n)^2/2' + ('' if ok else f'; {sp.simplify(ms)} vs {sp.simplify(series)}')})
        except Exception as ex:      # noqa
            obs.append({'id': f'lemma:parseval:{kind}', 'status': 'undecided', 'backend': 'sympy', 'ms': int((time.time() - t1) * 1000), 'detail': f'{type(ex).__name__}: {ex}'})
    print(json.dumps(obs))


def obligations(pid, tier, seed, repo_src, verif, engine=None, **_):
    """Extra obligation group of C08 (runs in a subprocess: sympy start-up and a clean sys.path)."""
    obs = []
    procs = [(k, subprocess.Popen([sys.executable, '-m', 'pyvc.fourier_lemma', repo_src, verif, k], stdout=subprocess.PIPE, stderr=subprocess.PIPE, text=True, cwd=verif))
             for k in ('rect', 'tri', 'saw')]
    for k, p in procs:
        try:
            out, err = p.communicate(timeout=900)
            obs += json.loads(out.strip().splitlines()[-1])
        except Exception as ex:      # noqa
            p.kill()
            obs.append({'id': f'lemma:fourier:{k}', 'status': 'undecided', 'backend': 'sympy', 'ms': 0, 'detail': f'lemma run failed: {type(ex).__name__}: {ex}'})
    if len(obs) < 12 and all(o['status'] == 'discharged' for o in obs):
        obs.append({'id': 'lemma:fourier:count', 'status': 'undecided', 'backend': 'sympy', 'ms': 0, 'detail': f'only {len(obs)} lemma obligations were generated (12 expected)'})
    return {'obligations': obs, 'standins': []}


if __name__ == '__main__':
    main(sys.argv[1], sys.argv[2], tuple(sys.argv[3:]) or ('rect', 'tri', 'saw'))
