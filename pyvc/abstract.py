"""Abstract (unbounded) collections: filled in by the sequence layer (DESIGN 3.2 / 3.4)."""
from __future__ import annotations
from .values import OutOfSubset


class AList:
    """Base class of abstract sequences; concrete subclasses live in seq.py."""
    length = None


def abstract_eq(a, b):
    from . import seq
    return seq.abstract_eq(a, b)
