"""AST interpreter over the mixed concrete/symbolic value domain (DESIGN 3.10).

The interpreter is written in direct style.  A symbolic branch asks the current Path for a decision;
exploring all paths is done by re-execution (values.explore).
"""
from __future__ import annotations
import ast
import os
import z3
from .values import (CTX, Path, PyRaise, OutOfSubset, Infeasible, SNum, SBool, SLabel, SChoice, ClassVal, Inst, FunctionVal,
                     BoundMethod, PropertyVal, StaticVal, Builtin, PartialVal, ModuleVal, Opaque, IDict, ISet, force,
                     is_concrete_num, lift)
from . import ops
from .values import ClassMethodVal
from .ops import truth, eq_value, raise_py
from .abstract import AList


class _Return(Exception):
    def __init__(self, v):
        self.v = v


def _has_yield(fnode):
    stack = list(fnode.body)
    while stack:
        n = stack.pop()
        if isinstance(n, (ast.Yield, ast.YieldFrom)):
            return True
        if isinstance(n, (ast.FunctionDef, ast.AsyncFunctionDef, ast.Lambda, ast.ClassDef)):
            continue
        stack.extend(ast.iter_child_nodes(n))
    return False


class _Break(Exception):
    pass


class _Continue(Exception):
    pass


class Env:
    __slots__ = ('vars', 'parent', 'globals_', 'declared_global')

    def __init__(self, parent=None, globals_=None):
        self.vars = {}
        self.parent = parent
        self.globals_ = globals_ if globals_ is not None else (parent.globals_ if parent else self)
        self.declared_global = set()

    def lookup(self, name):
        e = self
        while e is not None:
            if name in e.vars:
                return e.vars[name]
            e = e.parent
        raise KeyError(name)

    def set(self, name, v):
        if name in self.declared_global:
            self.globals_.vars[name] = v
        else:
            self.vars[name] = v


class FieldSpec:
    def __init__(self, default=None, default_factory=None, init=True, has_default=False, compare=True):
        self.default, self.default_factory, self.init, self.has_default, self.compare = default, default_factory, init, has_default, compare


class Universe:
    """Module table.  roots: {top-level package name: directory that contains it}."""

    def __init__(self, roots):
        self.roots = roots
        self.modules = {}
        self.loading = set()
        self.interp = Interp(self)
        self.contracts = []          # filled by the interpreted `contract` decorator of sidecar files
        self.files = {}              # module name -> (path, source)

    def find(self, dotted):
        top = dotted.split('.')[0]
        if top not in self.roots:
            return None
        base = os.path.join(self.roots[top], *dotted.split('.'))
        if os.path.isdir(base):
            init = os.path.join(base, '__init__.py')
            return (init if os.path.exists(init) else None, True)
        if os.path.exists(base + '.py'):
            return (base + '.py', False)
        return None

    def module(self, dotted):
        if dotted in self.modules:
            return self.modules[dotted]
        from .builtins_ import stub_module
        found = self.find(dotted)
        if found is None:
            top = dotted.split('.')[0]
            if top in self.roots:
                raise_py('ModuleNotFoundError', dotted)
            m = stub_module(dotted)
            self.modules[dotted] = m
            return m
        path, is_pkg = found
        m = ModuleVal(dotted, {}, path)
        m.is_pkg = is_pkg
        m.package = dotted if is_pkg else dotted.rpartition('.')[0]
        self.modules[dotted] = m
        if '.' in dotted:
            self.module(dotted.rpartition('.')[0])
        if path is not None:
            src = open(path, encoding='utf-8').read()
            self.files[dotted] = (path, src)
            tree = ast.parse(src, filename=path)
            env = Env()
            env.vars = m.ns
            m.ns['__name__'] = dotted
            m.env = env
            m.tree = tree
            p = Path()
            CTX.paths.append(p)
            try:
                self.interp.exec_block(tree.body, env, m)
            except BaseException:
                self.modules.pop(dotted, None)       # a module that failed to import is not importable
                raise
            finally:
                CTX.paths.pop()
        return m


class Interp:
    def __init__(self, universe):
        self.u = universe
        self.call_hook = None        # fn(fnval, args, kwargs) -> (handled, result)
        self.loop_hook = None        # fn(node, iterable, env, module) -> handled
        self.depth = 0
        from . import builtins_
        self.builtins = builtins_.make_builtins(self)

    # ------------------------------------------------------------------ statements
    def exec_block(self, stmts, env, mod):
        for s in stmts:
            self.exec_stmt(s, env, mod)

    def exec_stmt(self, s, env, mod):
        m = getattr(self, 'st_' + type(s).__name__, None)
        if m is None:
            raise OutOfSubset(f'statement {type(s).__name__} at {getattr(mod, "name", "?")}:{s.lineno}')
        return m(s, env, mod)

    def st_Expr(self, s, env, mod):
        self.ev(s.value, env, mod)

    def st_Pass(self, s, env, mod):
        pass

    def st_Return(self, s, env, mod):
        raise _Return(self.ev(s.value, env, mod) if s.value is not None else None)

    def st_Break(self, s, env, mod):
        raise _Break()

    def st_Continue(self, s, env, mod):
        raise _Continue()

    def st_Global(self, s, env, mod):
        env.declared_global.update(s.names)

    def st_Nonlocal(self, s, env, mod):
        raise OutOfSubset('nonlocal')

    def st_Assert(self, s, env, mod):
        if not truth(self.ev(s.test, env, mod)):
            raise_py('AssertionError')

    def st_Import(self, s, env, mod):
        for a in s.names:
            m = self.u.module(a.name)
            if a.asname:
                env.set(a.asname, m)
            else:
                top = a.name.split('.')[0]
                env.set(top, self.u.module(top))

    def _resolve_relative(self, s, mod):
        if s.level == 0:
            return s.module
        pkg = mod.package.split('.') if mod.package else []
        if s.level > 1:
            pkg = pkg[:len(pkg) - (s.level - 1)]
        return '.'.join(pkg + ([s.module] if s.module else []))

    def st_ImportFrom(self, s, env, mod):
        name = self._resolve_relative(s, mod)
        m = self.u.module(name)
        for a in s.names:
            if a.name == '*':
                for k, v in m.ns.items():
                    if not k.startswith('_'):
                        env.set(k, v)
                continue
            if a.name in m.ns:
                v = m.ns[a.name]
            elif getattr(m, 'is_stub', False):
                v = m.get(a.name)
            else:
                sub = self.u.find(name + '.' + a.name)
                if sub is not None:
                    v = self.u.module(name + '.' + a.name)
                else:
                    raise_py('ImportError', f'cannot import name {a.name} from {name}')
            env.set(a.asname or a.name, v)

    def st_Assign(self, s, env, mod):
        v = self.ev(s.value, env, mod)
        for t in s.targets:
            self.assign(t, v, env, mod)

    def st_AnnAssign(self, s, env, mod):
        if isinstance(s.target, ast.Name):
            env.vars.setdefault('__annotations__', [])
            if isinstance(env.vars['__annotations__'], list):
                ann = ast.unparse(s.annotation)
                env.vars['__annotations__'].append((s.target.id, ann))
        if s.value is not None:
            self.assign(s.target, self.ev(s.value, env, mod), env, mod)

    def st_AugAssign(self, s, env, mod):
        op = _BINOPS[type(s.op)]
        if isinstance(s.target, ast.Name):
            cur = self.load_name(s.target.id, env)
            self.assign(s.target, self.binop(op, cur, self.ev(s.value, env, mod), inplace=True), env, mod)
        elif isinstance(s.target, ast.Subscript):
            obj = self.ev(s.target.value, env, mod)
            idx = self.ev_index(s.target.slice, env, mod)
            cur = self.getitem(obj, idx)
            self.setitem(obj, idx, self.binop(op, cur, self.ev(s.value, env, mod), inplace=True))
        elif isinstance(s.target, ast.Attribute):
            obj = self.ev(s.target.value, env, mod)
            cur = self.getattr(obj, s.target.attr)
            self.setattr(obj, s.target.attr, self.binop(op, cur, self.ev(s.value, env, mod), inplace=True))
        else:
            raise OutOfSubset('augmented assignment target')

    def st_Delete(self, s, env, mod):
        for t in s.targets:
            if isinstance(t, ast.Subscript):
                obj = force(self.ev(t.value, env, mod))
                idx = self.ev_index(t.slice, env, mod)
                if isinstance(obj, IDict):
                    if not obj.has(idx):
                        raise_py('KeyError')
                    obj.pop(idx)
                elif isinstance(obj, list):
                    del obj[self._conc_index(idx)]
                else:
                    raise OutOfSubset('del on ' + type(obj).__name__)
            elif isinstance(t, ast.Name):
                env.vars.pop(t.id, None)
            else:
                raise OutOfSubset('del target')

    def st_If(self, s, env, mod):
        if truth(self.ev(s.test, env, mod)):
            self.exec_block(s.body, env, mod)
        else:
            self.exec_block(s.orelse, env, mod)

    def st_Match(self, s, env, mod):
        subject = self.ev(s.subject, env, mod)
        for case in s.cases:
            if self._match(case.pattern, subject, env, mod) and (case.guard is None or truth(self.ev(case.guard, env, mod))):
                self.exec_block(case.body, env, mod)
                return

    def _match(self, pat, v, env, mod):
        if isinstance(pat, ast.MatchValue):
            return truth(eq_value(v, self.ev(pat.value, env, mod)))
        if isinstance(pat, ast.MatchSingleton):
            return force(v) is pat.value
        if isinstance(pat, ast.MatchOr):
            return any(self._match(p, v, env, mod) for p in pat.patterns)
        if isinstance(pat, ast.MatchAs):
            if pat.pattern is not None and not self._match(pat.pattern, v, env, mod):
                return False
            if pat.name is not None:
                env.set(pat.name, v)
            return True
        if isinstance(pat, ast.MatchClass):
            if pat.patterns or pat.kwd_patterns or not isinstance(pat.cls, ast.Name):
                raise OutOfSubset('match class pattern with sub-patterns')
            from .builtins_ import TYPES
            t = TYPES.get(pat.cls.id)
            if t is None or not hasattr(t, 'check'):
                raise OutOfSubset('match class pattern ' + pat.cls.id)
            fv = force(v)
            if isinstance(fv, (SNum, Opaque)) and pat.cls.id in ('int', 'float', 'complex', 'bool', 'str'):
                raise OutOfSubset('match class pattern on a symbolic number')
            return bool(t.check(fv))
        if isinstance(pat, ast.MatchSequence):
            fv = force(v)
            if isinstance(fv, AList) and not any(isinstance(p, ast.MatchStar) for p in pat.patterns):
                n = len(pat.patterns)
                if not truth(eq_value(fv.len_value(), n)):
                    return False
                return all(self._match(p, fv.getitem(i), env, mod) for i, p in enumerate(pat.patterns))
            if not isinstance(fv, (list, tuple)) or any(isinstance(p, ast.MatchStar) for p in pat.patterns) or len(fv) != len(pat.patterns):
                if isinstance(fv, (list, tuple)) and not any(isinstance(p, ast.MatchStar) for p in pat.patterns):
                    return False
                raise OutOfSubset('match sequence pattern')
            return all(self._match(p, x, env, mod) for p, x in zip(pat.patterns, fv))
        raise OutOfSubset('match pattern ' + type(pat).__name__)

    def st_While(self, s, env, mod):
        n = 0
        while truth(self.ev(s.test, env, mod)):
            n += 1
            if n > 200:
                raise OutOfSubset('while loop did not terminate within 200 symbolic iterations')
            try:
                self.exec_block(s.body, env, mod)
            except _Break:
                return
            except _Continue:
                continue
        self.exec_block(s.orelse, env, mod)

    def iterate(self, it):
        it = force(it)
        if isinstance(it, (list, tuple)):
            return list(it)
        if isinstance(it, IDict):
            return it.keys()
        if isinstance(it, ISet):
            return list(reversed(it.elems)) if CTX.set_reversed else list(it.elems)
        if isinstance(it, str):
            return list(it)
        if isinstance(it, Inst):
            if it.cls.has('__iter__'):
                return self.iterate(self.call(self.getattr(it, '__iter__'), [], {}))
        if isinstance(it, AList):
            raise OutOfSubset('iteration over an abstract list without loop contract')
        from .arrays import AArr
        if isinstance(it, AArr):
            return it.iterate()
        raise OutOfSubset(f'iteration over {type(it).__name__}')

    def st_For(self, s, env, mod):
        it = self.ev(s.iter, env, mod)
        if self.loop_hook is not None and self.loop_hook(s, it, env, mod):
            return
        from . import seq
        fit = force(it)
        if isinstance(fit, Inst) and fit.cls.has('__iter__'):
            inner = force(self.call(self.getattr(fit, '__iter__'), [], {}))
            if isinstance(inner, (AList, seq.ASet, seq.ADict)):
                fit = inner
        if isinstance(fit, (AList, seq.ASet, seq.ADict)):
            seq.for_loop(self, s, fit, env, mod)
            return
        for x in self.iterate(it):
            self.assign(s.target, x, env, mod)
            try:
                self.exec_block(s.body, env, mod)
            except _Break:
                return
            except _Continue:
                continue
        self.exec_block(s.orelse, env, mod)

    def st_With(self, s, env, mod):
        suppressed = []
        for item in s.items:
            cm = self.ev(item.context_expr, env, mod)
            if isinstance(cm, Opaque) and cm.why == 'errstate':
                continue
            from .builtins_ import VFile
            if isinstance(force(cm), VFile):
                if item.optional_vars is not None:
                    self.assign(item.optional_vars, force(cm), env, mod)
                continue
            if getattr(force(cm), 'suppresses', None) is not None:
                suppressed += list(force(cm).suppresses)
                continue
            raise OutOfSubset('with-statement on ' + repr(cm))
        if suppressed:
            try:
                self.exec_block(s.body, env, mod)
            except PyRaise as e:
                if not any(isinstance(c, ClassVal) and e.exc.cls.issubclass(c) for c in suppressed):
                    raise
            return
        self.exec_block(s.body, env, mod)

    def st_Raise(self, s, env, mod):
        if s.exc is None:
            cur = getattr(self, '_current_exc', None)
            if cur is None:
                raise OutOfSubset('bare raise outside handler')
            raise PyRaise(cur)
        e = force(self.ev(s.exc, env, mod))
        if isinstance(e, ClassVal):
            e = self.call(e, [], {})
        if not isinstance(e, Inst):
            raise OutOfSubset('raise of non-exception')
        raise PyRaise(e)

    def _handler_matches(self, h, exc, env, mod):
        if h.type is None:
            return True
        t = self.ev(h.type, env, mod)
        ts = t if isinstance(t, tuple) else (t,)
        for c in ts:
            if isinstance(c, ClassVal) and exc.cls.issubclass(c):
                return True
        return False

    def st_Try(self, s, env, mod):
        try:
            try:
                self.exec_block(s.body, env, mod)
            except PyRaise as pr:
                for h in s.handlers:
                    if self._handler_matches(h, pr.exc, env, mod):
                        if h.name:
                            env.set(h.name, pr.exc)
                        old = getattr(self, '_current_exc', None)
                        self._current_exc = pr.exc
                        try:
                            self.exec_block(h.body, env, mod)
                        finally:
                            self._current_exc = old
                        break
                else:
                    raise
            else:
                self.exec_block(s.orelse, env, mod)
        finally:
            if s.finalbody:
                self.exec_block(s.finalbody, env, mod)

    def st_FunctionDef(self, s, env, mod):
        fn = self.make_function(s, env, mod)
        for d in reversed(s.decorator_list):
            dec = self.ev(d, env, mod)
            fn = self.apply_decorator(dec, fn)
        env.set(s.name, fn)

    def make_function(self, s, env, mod, name=None):
        a = s.args
        defaults = [self.ev(d, env, mod) for d in a.defaults]
        kw_defaults = {k.arg: self.ev(d, env, mod) for k, d in zip(a.kwonlyargs, a.kw_defaults) if d is not None}
        qual = qualprefix(env) + (name or s.name)
        fn = FunctionVal(s, env, name or getattr(s, 'name', '<lambda>'), mod, qual, defaults, kw_defaults)
        return fn

    def apply_decorator(self, dec, target):
        if isinstance(dec, Builtin):
            return dec.fn([target], {})
        return self.call(dec, [target], {})

    def st_ClassDef(self, s, env, mod):
        bases = [self.ev(b, env, mod) for b in s.bases]
        cenv = Env(parent=env)
        cenv_qual = qualprefix(env) + s.name + '.'
        cenv.vars['__qualprefix__'] = cenv_qual
        cls = ClassVal(s.name, [b for b in bases], cenv.vars, mod)
        cls.qualname = qualprefix(env) + s.name
        cls.node = s
        self._class_body(s.body, cenv, mod, cenv_qual)
        for v in cenv.vars.values():
            if isinstance(v, FunctionVal) and v.owner is None:
                v.owner = cls
            if isinstance(v, PropertyVal) and v.fget.owner is None:
                v.fget.owner = cls
        if any(isinstance(b, ClassVal) and b.name == 'Enum' and b.module is None for b in cls.mro[1:]):
            # enum model: every plain class attribute becomes a member object (identity comparison, .name, .value)
            for k, v in list(cenv.vars.items()):
                if not k.startswith('__') and not isinstance(v, (FunctionVal, PropertyVal, StaticVal, ClassMethodVal)):
                    cenv.vars[k] = Inst(cls, {'name': k, 'value': v, '_name_': k, '_value_': v})
        out = cls
        for d in reversed(s.decorator_list):
            dec = self.ev(d, env, mod)
            out = self.apply_decorator(dec, out)
        env.set(s.name, out)

    def _class_body(self, body, cenv, mod, qual):
        for st in body:
            if isinstance(st, ast.FunctionDef):
                fn = self.make_function(st, cenv, mod)
                fn.qualname = qual + st.name
                # methods close over the *enclosing* scope, not the class scope
                fn.env = cenv.parent
                fn.class_env = cenv
                out = fn
                for d in reversed(st.decorator_list):
                    dec = self.ev(d, cenv, mod)
                    out = self.apply_decorator(dec, out)
                cenv.set(st.name, out)
            else:
                self.exec_stmt(st, cenv, mod)

    # ------------------------------------------------------------------ assignment targets
    def assign(self, t, v, env, mod):
        if isinstance(t, ast.Name):
            env.set(t.id, v)
        elif isinstance(t, (ast.Tuple, ast.List)):
            vals = self.iterate(v)
            star = [i for i, e in enumerate(t.elts) if isinstance(e, ast.Starred)]
            if star:
                i = star[0]
                n_after = len(t.elts) - i - 1
                if len(vals) < len(t.elts) - 1:
                    raise_py('ValueError', 'not enough values to unpack')
                for e, x in zip(t.elts[:i], vals[:i]):
                    self.assign(e, x, env, mod)
                self.assign(t.elts[i].value, list(vals[i:len(vals) - n_after]), env, mod)
                for e, x in zip(t.elts[i + 1:], vals[len(vals) - n_after:]):
                    self.assign(e, x, env, mod)
            else:
                if len(vals) != len(t.elts):
                    raise_py('ValueError', 'unpack length mismatch')
                for e, x in zip(t.elts, vals):
                    self.assign(e, x, env, mod)
        elif isinstance(t, ast.Subscript):
            obj = self.ev(t.value, env, mod)
            self.setitem(obj, self.ev_index(t.slice, env, mod), v)
        elif isinstance(t, ast.Attribute):
            self.setattr(self.ev(t.value, env, mod), t.attr, v)
        else:
            raise OutOfSubset('assignment target ' + type(t).__name__)

    # ------------------------------------------------------------------ expressions
    def ev(self, e, env, mod):
        m = getattr(self, 'ex_' + type(e).__name__, None)
        if m is None:
            raise OutOfSubset(f'expression {type(e).__name__}')
        return m(e, env, mod)

    def ex_Constant(self, e, env, mod):
        if e.value is Ellipsis:
            return None
        return e.value

    def load_name(self, name, env):
        try:
            return env.lookup(name)
        except KeyError:
            pass
        if name in self.builtins:
            return self.builtins[name]
        raise_py('NameError', name)

    def ex_Name(self, e, env, mod):
        return self.load_name(e.id, env)

    def ex_Tuple(self, e, env, mod):
        return tuple(self._elts(e.elts, env, mod))

    def ex_List(self, e, env, mod):
        return self._elts(e.elts, env, mod)

    def _elts(self, elts, env, mod):
        out = []
        for x in elts:
            if isinstance(x, ast.Starred):
                out.extend(self.iterate(self.ev(x.value, env, mod)))
            else:
                out.append(self.ev(x, env, mod))
        return out

    def ex_Set(self, e, env, mod):
        return ISet(self._elts(e.elts, env, mod))

    def ex_Dict(self, e, env, mod):
        d = IDict()
        for k, v in zip(e.keys, e.values):
            if k is None:
                src = force(self.ev(v, env, mod))
                if not isinstance(src, IDict):
                    raise OutOfSubset('** of non-dict')
                for kk, vv in src.items():
                    d.set(kk, vv)
            else:
                d.set(self.ev(k, env, mod), self.ev(v, env, mod))
        return d

    def ex_JoinedStr(self, e, env, mod):
        parts = []
        for v in e.values:
            if isinstance(v, ast.Constant):
                parts.append(str(v.value))
            else:
                x = force(self.ev(v.value, env, mod))
                spec = None
                if v.format_spec is not None:
                    spec = self.ex_JoinedStr(v.format_spec, env, mod)
                    if not isinstance(spec, str):
                        raise OutOfSubset('symbolic format spec')
                if isinstance(x, (int, float, complex, str, bool)) or x is None:
                    if v.conversion == 114:
                        x = repr(x)
                    elif v.conversion == 115:
                        x = str(x)
                    parts.append(format(x, spec) if spec else str(x))
                else:
                    parts.append(FSTR_HOLE)
        if any(p is FSTR_HOLE for p in parts):
            return Opaque('fstring')
        return ''.join(parts)

    def ex_Lambda(self, e, env, mod):
        return self.make_function(e, env, mod, name='<lambda>')

    def ex_NamedExpr(self, e, env, mod):
        v = self.ev(e.value, env, mod)
        self.assign(e.target, v, env, mod)
        return v

    def ex_Yield(self, e, env, mod):
        sink = self._yield_sink(env)
        sink.append(self.ev(e.value, env, mod) if e.value is not None else None)
        return None

    def ex_YieldFrom(self, e, env, mod):
        sink = self._yield_sink(env)
        sink.extend(self.iterate(self.ev(e.value, env, mod)))
        return None

    def _yield_sink(self, env):
        e = env
        while e is not None:
            if '__yield_sink__' in e.vars:
                return e.vars['__yield_sink__']
            e = e.parent
        raise OutOfSubset('yield outside a generator function')

    def ex_IfExp(self, e, env, mod):
        if truth(self.ev(e.test, env, mod)):
            return self.ev(e.body, env, mod)
        return self.ev(e.orelse, env, mod)

    def ex_BoolOp(self, e, env, mod):
        is_and = isinstance(e.op, ast.And)
        v = None
        for k, x in enumerate(e.values):
            v = self.ev(x, env, mod)
            fv = force(v)
            if isinstance(fv, SBool) and k + 1 < len(e.values):
                # symbolic first operand: evaluate the rest under the assumption that it is reached (nested exploration, merged),
                # so that `a and b` / `a or b` do not fork the enclosing path; falls back to forking if the rest may raise
                merged = self._boolop_rest(e, k + 1, fv, is_and, env, mod)
                if merged is not _NO_MERGE:
                    return merged
            t = truth(v)
            if is_and and not t:
                return v
            if not is_and and t:
                return v
        return v

    def _boolop_rest(self, e, start, first, is_and, env, mod):
        from .values import explore, CTX
        guard = first.t if is_and else z3.Not(first.t)
        rest = ast.BoolOp(op=e.op, values=e.values[start:]) if len(e.values) - start > 1 else e.values[start]
        outer = CTX.path
        try:
            outs = explore(lambda: self.ev(rest, Env(parent=env), mod), base=outer.all_conds() + [guard], want_local_conds=True)
        except OutOfSubset:
            return _NO_MERGE
        if any(o.kind == 'exc' for o in outs):
            return _NO_MERGE
        if not outs:
            return first            # the rest is unreachable
        alts = [(z3.And(*o.conds) if o.conds else z3.BoolVal(True), o.value) for o in outs]
        rest_val = ops.merge(alts)
        if isinstance(force(rest_val), (bool, SBool)):
            return ops.s_and(first, rest_val) if is_and else ops.s_or(first, rest_val)
        return ops.merge([(guard, rest_val), (z3.Not(guard), first)])

    def ex_UnaryOp(self, e, env, mod):
        v = self.ev(e.operand, env, mod)
        if isinstance(e.op, ast.Not):
            v = force(v)
            if isinstance(v, (SBool, bool)):
                return ops.s_not(v)
            return not truth(v)
        if isinstance(e.op, ast.USub):
            from .arrays import AArr
            if isinstance(force(v), AArr):
                return force(v).map(ops.neg)
            return ops.neg(v)
        if isinstance(e.op, ast.UAdd):
            return v
        if isinstance(e.op, ast.Invert):
            from .arrays import AArr
            v = force(v)
            if isinstance(v, AArr):
                return v.map(ops.s_not)
            if isinstance(v, (bool, SBool)):
                return ops.s_not(v)
            if isinstance(v, int):
                return ~v
        raise OutOfSubset('unary operator')

    def binop(self, op, a, b, inplace=False):
        a, b = force(a), force(b)
        from .arrays import AArr, arr_binop
        if isinstance(a, AArr) or isinstance(b, AArr):
            return arr_binop(self, op, a, b)
        if op == '+':
            if isinstance(a, list) and isinstance(b, list):
                if inplace:
                    a.extend(b)
                    return a
                return a + b
            if isinstance(a, tuple) and isinstance(b, tuple):
                return a + b
            if isinstance(a, str) and isinstance(b, str):
                return a + b
            if isinstance(a, AList) or isinstance(b, AList):
                from . import seq
                return seq.concat(a, b)
            from .values import AbstractCall
            if isinstance(a, (str, SLabel, Opaque, AbstractCall)) and isinstance(b, (str, SLabel, Opaque, AbstractCall)):
                return Opaque('string concatenation')
        if op == '*':
            if isinstance(a, (list, tuple, str)) and isinstance(b, int):
                return a * b
            if isinstance(b, (list, tuple, str)) and isinstance(a, int):
                return b * a
        if op == '%' and isinstance(a, str):
            return Opaque('string formatting')
        if op in ('-', '+') and isinstance(a, tuple) and isinstance(b, tuple) and len(a) == len(b) == 2 and op == '-':
            return (ops.arith('-', a[0], b[0]), ops.arith('-', a[1], b[1]))      # schemdraw.util.Point arithmetic
        if op == '@':
            from .arrays import matmul
            return matmul(self, a, b)
        if op == '|' and (isinstance(a, (ClassVal, Builtin, Opaque)) or a is None) and (isinstance(b, (ClassVal, Builtin, Opaque)) or b is None):
            return Opaque('typing union')
        if op in ('|', '&') and isinstance(a, (bool, SBool)) and isinstance(b, (bool, SBool)):
            return ops.s_or(a, b) if op == '|' else ops.s_and(a, b)
        if op == '|' and isinstance(a, ISet) and isinstance(b, ISet):
            return ISet(a.elems + b.elems)
        if op == '|' and isinstance(a, IDict) and isinstance(b, IDict):
            if inplace:
                for k, v in b.items():
                    a.set(k, v)
                return a
            out = a.copy()
            for k, v in b.items():
                out.set(k, v)
            return out
        if op == '&' and isinstance(a, ISet) and isinstance(b, ISet):
            return ISet([x for x in a.elems if b.has(x)])
        if op == '|':
            from . import seq
            if isinstance(a, seq.ASet) or isinstance(b, seq.ASet):
                if isinstance(a, (seq.ASet, ISet)) and isinstance(b, (seq.ASet, ISet)):
                    return seq.ASet(seq.concat(seq.as_al(a), seq.as_al(b)))
        if op == '-' and isinstance(a, ISet) and isinstance(b, ISet):
            return ISet([x for x in a.elems if not b.has(x)])
        if inplace and isinstance(a, Inst):
            iname = {'+': '__iadd__', '-': '__isub__', '*': '__imul__'}.get(op)
            if iname and (a.cls.has(iname) or getattr(a.cls, 'native_getattr', None) is not None or any(getattr(c, 'native_getattr', None) for c in a.cls.mro)):
                try:
                    return self.call(self.getattr(a, iname), [b], {})
                except PyRaise as e:
                    if e.exc.cls.name != 'AttributeError':
                        raise
        if isinstance(a, Inst) or isinstance(b, Inst):
            for x, name in ((a, {'+': '__add__', '-': '__sub__', '*': '__mul__', '/': '__truediv__'}.get(op)),):
                if isinstance(x, Inst) and name and x.cls.has(name):
                    return self.call(self.getattr(x, name), [b], {})
            raise_py('TypeError', f'unsupported operand type(s) for {op}')
        return ops.arith(op, a, b)

    def ex_BinOp(self, e, env, mod):
        return self.binop(_BINOPS[type(e.op)], self.ev(e.left, env, mod), self.ev(e.right, env, mod))

    def contains(self, container, x):
        c = force(container)
        if isinstance(c, (list, tuple)):
            return ops.s_or(*[eq_value(y, x) for y in c])
        if isinstance(c, IDict):
            return ops.s_or(*[eq_value(k, x) for k in c.keys()])
        if isinstance(c, ISet):
            return ops.s_or(*[eq_value(k, x) for k in c.elems])
        if isinstance(c, str):
            x = force(x)
            if isinstance(x, str):
                return x in c
            raise OutOfSubset('symbolic substring test')
        if isinstance(c, AList):
            return c.contains(x)
        if isinstance(c, Inst):
            if c.cls.has('__contains__'):
                return self.call(self.getattr(c, '__contains__'), [x], {})
            if c.cls.has('__iter__'):
                return self.contains(self.iterate(c), x)
        from .seq import ASet, ADict
        if isinstance(c, (ASet, ADict)):
            return c.contains(x)
        raise OutOfSubset(f'"in" on {type(c).__name__}')

    def ex_Compare(self, e, env, mod):
        left = self.ev(e.left, env, mod)
        result = True
        for op, rhs in zip(e.ops, e.comparators):
            right = self.ev(rhs, env, mod)
            r = self.compare1(op, left, right)
            if len(e.ops) == 1:
                return r
            if not truth(r):
                return False
            left = right
        return result

    def compare1(self, op, a, b):
        from .arrays import AArr, arr_compare
        if isinstance(force(a), AArr) or isinstance(force(b), AArr):
            return arr_compare(self, op, force(a), force(b))
        if isinstance(op, ast.Eq):
            a_, b_ = force(a), force(b)
            if isinstance(a_, Inst) and a_.cls.has('__eq__') and not ops.is_dataclass(a_.cls):
                return self.call(self.getattr(a_, '__eq__'), [b_], {})
            return eq_value(a_, b_)
        if isinstance(op, ast.NotEq):
            return ops.s_not(eq_value(a, b))
        if isinstance(op, ast.Is):
            return self._is(a, b)
        if isinstance(op, ast.IsNot):
            return ops.s_not(self._is(a, b))
        if isinstance(op, ast.In):
            return self.contains(b, a)
        if isinstance(op, ast.NotIn):
            return ops.s_not(self.contains(b, a))
        return ops.compare(_CMPOPS[type(op)], a, b)

    def _is(self, a, b):
        a, b = force(a), force(b)
        if a is None or b is None:
            return a is b
        if isinstance(a, (bool, ClassVal, FunctionVal, Inst, list, IDict, ISet, ModuleVal)) or isinstance(b, (bool, ClassVal, FunctionVal, Inst, list, IDict, ISet, ModuleVal)):
            return a is b
        raise OutOfSubset('"is" on values without identity in the model')

    def ex_Attribute(self, e, env, mod):
        return self.getattr(self.ev(e.value, env, mod), e.attr)

    def ev_index(self, sl, env, mod):
        if isinstance(sl, ast.Slice):
            return slice(*(None if x is None else self.ev(x, env, mod) for x in (sl.lower, sl.upper, sl.step)))
        if isinstance(sl, ast.Tuple):
            return tuple(self.ev_index(x, env, mod) for x in sl.elts)
        return self.ev(sl, env, mod)

    def ex_Subscript(self, e, env, mod):
        return self.getitem(self.ev(e.value, env, mod), self.ev_index(e.slice, env, mod))

    def ex_Starred(self, e, env, mod):
        raise OutOfSubset('starred expression')

    def ex_Slice(self, e, env, mod):
        return self.ev_index(e, env, mod)

    # comprehensions -----------------------------------------------------------------------
    def _comp(self, generators, env, mod, emit):
        def rec(i, cenv):
            if i == len(generators):
                emit(cenv)
                return
            g = generators[i]
            it = self.ev(g.iter, cenv, mod)
            for x in self.iterate(it):
                self.assign(g.target, x, cenv, mod)
                if all(truth(self.ev(c, cenv, mod)) for c in g.ifs):
                    rec(i + 1, cenv)
        rec(0, Env(parent=env))

    def _abstract_first(self, e, env, mod):
        """The first iterable of a comprehension, evaluated once; (value, is_abstract)."""
        from . import seq
        src = force(self.ev(e.generators[0].iter, env, mod))
        if isinstance(src, Inst) and src.cls.has('__iter__'):
            it = force(self.call(self.getattr(src, '__iter__'), [], {}))
            if isinstance(it, (AList, seq.ASet, seq.ADict)):
                src = it
        return src, isinstance(src, (AList, seq.ASet, seq.ADict))

    def _abstract_comp(self, e, src, env, mod, kind):
        """Comprehension whose first generator ranges over an abstract sequence."""
        if len(e.generators) != 1:
            raise OutOfSubset('nested comprehension over abstract sequence')
        from . import seq
        return seq.comprehension(self, src, e.generators[0], e, env, mod, kind)

    def _comp_with_first(self, generators, first, env, mod, emit):
        def rec(i, cenv):
            if i == len(generators):
                emit(cenv)
                return
            g = generators[i]
            it = first if i == 0 else self.ev(g.iter, cenv, mod)
            for x in self.iterate(it):
                self.assign(g.target, x, cenv, mod)
                if all(truth(self.ev(c, cenv, mod)) for c in g.ifs):
                    rec(i + 1, cenv)
        rec(0, Env(parent=env))

    def ex_ListComp(self, e, env, mod):
        src, abstract = self._abstract_first(e, env, mod)
        if abstract:
            return self._abstract_comp(e, src, env, mod, 'list')
        out = []
        self._comp_with_first(e.generators, src, env, mod, lambda cenv: out.append(self.ev(e.elt, cenv, mod)))
        return out

    ex_GeneratorExp = ex_ListComp

    def ex_SetComp(self, e, env, mod):
        src, abstract = self._abstract_first(e, env, mod)
        if abstract:
            return self._abstract_comp(e, src, env, mod, 'set')
        out = ISet()
        self._comp_with_first(e.generators, src, env, mod, lambda cenv: out.add(self.ev(e.elt, cenv, mod)))
        return out

    def ex_DictComp(self, e, env, mod):
        src, abstract = self._abstract_first(e, env, mod)
        if abstract:
            return self._abstract_comp(e, src, env, mod, 'dict')
        out = IDict()
        self._comp_with_first(e.generators, src, env, mod, lambda cenv: out.set(self.ev(e.key, cenv, mod), self.ev(e.value, cenv, mod)))
        return out

    # calls ---------------------------------------------------------------------------------
    def ex_Call(self, e, env, mod):
        if isinstance(e.func, ast.Name) and e.func.id == 'super' and not e.args and not e.keywords:
            try:
                cls = env.lookup('__class__')
                obj = env.lookup('__self__')
            except KeyError:
                raise OutOfSubset('super() outside a method')
            return SuperProxy(cls, obj)
        fn = self.ev(e.func, env, mod)
        args = []
        for a in e.args:
            if isinstance(a, ast.Starred):
                args.extend(self.iterate(self.ev(a.value, env, mod)))
            else:
                args.append(self.ev(a, env, mod))
        kwargs = {}
        for k in e.keywords:
            if k.arg is None:
                d = force(self.ev(k.value, env, mod))
                if not isinstance(d, IDict):
                    raise OutOfSubset('** of non-dict')
                for kk, vv in d.items():
                    if not isinstance(kk, str):
                        raise OutOfSubset('** with symbolic key')
                    if kk in kwargs:
                        raise_py('TypeError', f'got multiple values for keyword argument {kk}')
                    kwargs[kk] = vv
            else:
                if k.arg in kwargs:
                    raise_py('TypeError', f'got multiple values for keyword argument {k.arg}')
                kwargs[k.arg] = self.ev(k.value, env, mod)
        return self.call(fn, args, kwargs, site=e)

    def call(self, fn, args, kwargs, site=None):
        fn = force(fn)
        if isinstance(fn, Builtin):
            return fn.fn(args, kwargs)
        if isinstance(fn, BoundMethod):
            return self.call(fn.fn, [fn.self_obj] + list(args), kwargs, site)
        if isinstance(fn, PartialVal):
            kw = dict(fn.kwargs)
            kw.update(kwargs)
            return self.call(fn.fn, list(fn.args) + list(args), kw, site)
        if isinstance(fn, StaticVal):
            return self.call(fn.fn, args, kwargs, site)
        if isinstance(fn, ClassVal):
            return self.instantiate(fn, args, kwargs)
        if isinstance(fn, FunctionVal):
            if self.call_hook is not None:
                handled, res = self.call_hook(fn, args, kwargs)
                if handled:
                    return res
            return self.call_function(fn, args, kwargs)
        if isinstance(fn, Inst) and fn.cls.has('__call__'):
            return self.call(self.getattr(fn, '__call__'), args, kwargs, site)
        if isinstance(fn, Opaque):
            return Opaque('call of ' + fn.why)
        raise_py('TypeError', f'{fn!r} is not callable')

    def bind(self, fn, args, kwargs):
        a = fn.node.args
        env = Env(parent=fn.env)
        pos = [p.arg for p in a.posonlyargs + a.args]
        args = list(args)
        kwargs = dict(kwargs)
        n = len(pos)
        for name, v in zip(pos, args):
            env.vars[name] = v
        if len(args) > n:
            if a.vararg is None:
                raise_py('TypeError', f'{fn.name}() takes {n} positional arguments but {len(args)} were given')
            env.vars[a.vararg.arg] = tuple(args[n:])
        elif a.vararg is not None:
            env.vars[a.vararg.arg] = ()
        ndef = len(fn.defaults)
        for i, name in enumerate(pos):
            if i < len(args):
                if name in kwargs:
                    raise_py('TypeError', f'{fn.name}() got multiple values for argument {name}')
                continue
            if name in kwargs:
                env.vars[name] = kwargs.pop(name)
            elif i >= n - ndef:
                env.vars[name] = fn.defaults[i - (n - ndef)]
            else:
                raise_py('TypeError', f'{fn.name}() missing required argument {name}')
        for k in a.kwonlyargs:
            if k.arg in kwargs:
                env.vars[k.arg] = kwargs.pop(k.arg)
            elif k.arg in fn.kw_defaults:
                env.vars[k.arg] = fn.kw_defaults[k.arg]
            else:
                raise_py('TypeError', f'{fn.name}() missing keyword-only argument {k.arg}')
        if a.kwarg is not None:
            env.vars[a.kwarg.arg] = IDict(list(kwargs.items()))
        elif kwargs:
            raise_py('TypeError', f'{fn.name}() got an unexpected keyword argument {next(iter(kwargs))}')
        return env

    def call_function(self, fn, args, kwargs):
        env = self.bind(fn, args, kwargs)
        if fn.owner is not None and args:
            env.vars['__class__'] = fn.owner
            env.vars['__self__'] = args[0]
        self.depth += 1
        if self.depth > 60:
            self.depth -= 1
            raise OutOfSubset('recursion depth')
        try:
            if isinstance(fn.node, ast.Lambda):
                return self.ev(fn.node.body, env, fn.module)
            # qualprefix for nested definitions
            env.vars['__qualprefix__'] = fn.qualname + '.<locals>.'
            is_gen = getattr(fn, '_is_generator', None)
            if is_gen is None:
                is_gen = fn._is_generator = _has_yield(fn.node)
            if is_gen:
                # generator function: its body is run to completion at the call and the yielded values are collected (sound for
                # bodies without side effects whose values are all consumed; recorded as an assumption of the interpreter)
                env.vars['__yield_sink__'] = []
                try:
                    self.exec_block(fn.node.body, env, fn.module)
                except _Return:
                    pass
                return env.vars['__yield_sink__']        # (a loop over an abstract sequence rebinds the sink to an abstract list)
            try:
                self.exec_block(fn.node.body, env, fn.module)
            except _Return as r:
                return r.v
            return None
        finally:
            self.depth -= 1

    def instantiate(self, cls, args, kwargs):
        from .builtins_ import is_exception_class
        if getattr(cls, 'native_new', None):
            return cls.native_new(self, cls, args, kwargs)
        inst = Inst(cls, {})
        from .schemdraw_model import BASE as _SD_BASE, prepare as _sd_prepare
        if _SD_BASE in cls.mro:
            _sd_prepare(inst, kwargs)
        for c in cls.mro:
            for k, v in c.ns.items():
                f = v.fget if isinstance(v, PropertyVal) else v
                if isinstance(f, FunctionVal) and f.is_abstract and cls.lookup(k) is v:
                    raise_py('TypeError', f"Can't instantiate abstract class {cls.name} with abstract method {k}")
        if ops.is_dataclass(cls) and not cls_defines(cls, '__init__'):
            fields = ops.dataclass_fields(cls)
            init_fields = [f for f in fields if f['init']]
            args = list(args)
            kwargs = dict(kwargs)
            if len(args) > len(init_fields):
                raise_py('TypeError', f'{cls.name}() takes {len(init_fields)} positional arguments but {len(args)} were given')
            for f, v in zip(init_fields, args):
                if f['name'] in kwargs:
                    raise_py('TypeError', f'{cls.name}() got multiple values for argument {f["name"]}')
                inst.attrs[f['name']] = v
            for f in fields:
                n = f['name']
                if n in inst.attrs:
                    continue
                if f['init'] and n in kwargs:
                    inst.attrs[n] = kwargs.pop(n)
                elif f['has_default']:
                    inst.attrs[n] = f['default']
                elif f['default_factory'] is not None:
                    inst.attrs[n] = self.call(f['default_factory'], [], {})
                elif f['init']:
                    raise_py('TypeError', f'{cls.name}() missing required argument {n}')
            if kwargs:
                raise_py('TypeError', f'{cls.name}() got an unexpected keyword argument {next(iter(kwargs))}')
            if cls.has('__post_init__'):
                inst.initialising = True
                try:
                    self.call(self.getattr(inst, '__post_init__'), [], {})
                finally:
                    inst.initialising = False
            return inst
        if is_exception_class(cls) and not cls_defines(cls, '__init__'):
            inst.attrs['args'] = tuple(args)
            return inst
        if cls.has('__init__'):
            init = cls.lookup('__init__')
            if isinstance(init, Builtin) and getattr(init, 'is_method', False):
                init.fn([inst] + list(args), kwargs)
                return inst
            if isinstance(init, FunctionVal):
                inst.initialising = True
                try:
                    self.call(init, [inst] + list(args), kwargs)
                finally:
                    inst.initialising = False
                return inst
        if args or kwargs:
            raise_py('TypeError', f'{cls.name}() takes no arguments')
        return inst

    # attributes ------------------------------------------------------------------------------
    def getattr(self, obj, name):
        if isinstance(obj, SChoice) and all(isinstance(x, Inst) and name in x.attrs for _, x in obj.alts):
            return ops.merge([(c, x.attrs[name]) for c, x in obj.alts])      # plain data attribute of every alternative: no fork
        obj = force(obj)
        if isinstance(obj, SuperProxy):
            inst = force(obj.obj)
            mro = inst.cls.mro if isinstance(inst, Inst) else []
            start = mro.index(obj.cls) + 1 if obj.cls in mro else 0
            for c in mro[start:]:
                if name in c.ns:
                    v = c.ns[name]
                    if isinstance(v, FunctionVal):
                        return BoundMethod(v, inst)
                    if isinstance(v, Builtin):
                        return Builtin(v.name, lambda a, k, v=v: v.fn([inst] + list(a), k))
                    if isinstance(v, PropertyVal):
                        return self.call(v.fget, [inst], {})
                    return v
                hook = getattr(c, 'native_getattr', None)
                if hook is not None:
                    return hook(self, inst, name)
            if name in ('__init__', '__post_init__'):
                return Builtin('object.' + name, lambda a, k: None)
            raise_py('AttributeError', f'super object has no attribute {name}')
        if isinstance(obj, Inst):
            if name in obj.attrs:
                return obj.attrs[name]
            if name == '__class__':
                return obj.cls
            try:
                v = obj.cls.lookup(name)
            except KeyError:
                for c in obj.cls.mro:
                    hook = getattr(c, 'native_getattr', None)
                    if hook is not None:
                        return hook(self, obj, name)
                raise_py('AttributeError', f'{obj.cls.name} has no attribute {name}')
            if isinstance(v, FunctionVal):
                return BoundMethod(v, obj)
            if isinstance(v, PropertyVal):
                return self.call(v.fget, [obj], {})
            if isinstance(v, StaticVal):
                return v.fn
            if isinstance(v, ClassMethodVal):
                return BoundMethod(v.fn, obj.cls)
            if isinstance(v, FieldSpec):
                raise_py('AttributeError', name)
            if isinstance(v, Builtin) and getattr(v, 'is_method', False):
                return Builtin(v.name, lambda a, k, v=v: v.fn([obj] + list(a), k))
            return v
        if isinstance(obj, ModuleVal):
            if getattr(obj, 'is_stub', False):
                return obj.get(name)
            if name in obj.ns:
                return obj.ns[name]
            sub = self.u.find(obj.name + '.' + name)
            if sub is not None and (obj.name + '.' + name) in self.u.modules:
                return self.u.modules[obj.name + '.' + name]
            raise_py('AttributeError', f'module {obj.name} has no attribute {name}')
        if isinstance(obj, ClassVal):
            if name == '__name__':
                return obj.name
            try:
                v = obj.lookup(name)
            except KeyError:
                raise_py('AttributeError', f'class {obj.name} has no attribute {name}')
            if isinstance(v, StaticVal):
                return v.fn
            if isinstance(v, ClassMethodVal):
                return BoundMethod(v.fn, obj)
            if isinstance(v, FieldSpec):
                if v.has_default:
                    return v.default
                raise_py('AttributeError', name)
            return v
        from .builtins_ import value_attr
        return value_attr(self, obj, name)

    def setattr(self, obj, name, v):
        obj = force(obj)
        if isinstance(obj, Inst):
            dc = [c for c in obj.cls.mro if getattr(c, 'dataclass', None)]
            if dc and any(c.dataclass['frozen'] for c in dc) and not getattr(obj, 'initialising_dc', False):
                raise_py('FrozenInstanceError', name)
            obj.attrs[name] = v
            return
        if isinstance(obj, (ModuleVal, ClassVal)):
            obj.ns[name] = v
            return
        raise OutOfSubset('attribute assignment on ' + type(obj).__name__)

    # items -----------------------------------------------------------------------------------
    def _conc_index(self, idx):
        idx = force(idx)
        if isinstance(idx, bool):
            return int(idx)
        if isinstance(idx, int):
            return idx
        if isinstance(idx, float) and idx == int(idx):
            raise_py('TypeError', 'list indices must be integers')
        if isinstance(idx, SNum):
            s = z3.simplify(idx.re)
            if z3.is_int_value(s):
                return s.as_long()
            if z3.is_rational_value(s) and s.denominator_as_long() == 1:
                return s.numerator_as_long()
            raise OutOfSubset('symbolic index into a concrete sequence')
        raise OutOfSubset(f'index of type {type(idx).__name__}')

    def getitem(self, obj, idx):
        obj = force(obj)
        if isinstance(obj, (list, tuple, str)):
            if isinstance(idx, slice):
                return obj[slice(*(None if x is None else self._conc_index(x) for x in (idx.start, idx.stop, idx.step)))]
            fi = force(idx)
            if isinstance(fi, SNum) and fi.is_int and not z3.is_int_value(z3.simplify(fi.re)) and isinstance(obj, (list, tuple)) and len(obj) <= 16:
                # symbolic integer index into a short concrete sequence: one path per position (an index proved out of range raises)
                from .values import CTX
                for j in range(len(obj)):
                    if CTX.path.branch(z3.Or(fi.re == j, fi.re == j - len(obj))):
                        return obj[j]
                raise_py('IndexError', 'index out of range')
            i = self._conc_index(idx)
            try:
                return obj[i]
            except IndexError:
                raise_py('IndexError', 'index out of range')
        if isinstance(obj, IDict):
            i = obj._find(idx)
            if i < 0:
                factory = getattr(obj, 'factory', None)
                if factory is not None:            # collections.defaultdict
                    v = self.call(factory, [], {})
                    obj.set(idx, v)
                    return v
                raise_py('KeyError', idx)
            return obj.items_[i][1]
        if isinstance(obj, Inst):
            if obj.cls.has('__getitem__'):
                return self.call(self.getattr(obj, '__getitem__'), [idx], {})
            raise_py('TypeError', 'not subscriptable')
        if isinstance(obj, AList):
            return obj.getitem(idx)
        from .seq import ADict
        if isinstance(obj, ADict):
            return obj.getitem(idx)
        from .arrays import AArr
        if isinstance(obj, AArr):
            return obj.getitem(self, idx)
        if isinstance(obj, (ClassVal, Builtin, Opaque)):
            return obj     # typing generics such as list[int], Callable[...]
        if hasattr(obj, 'pyvc_getitem'):
            return obj.pyvc_getitem(self, idx)
        if obj is None or isinstance(obj, (SNum, SBool, int, float, complex, bool)):
            raise_py('TypeError', f'{type(obj).__name__} object is not subscriptable')
        raise OutOfSubset(f'subscript of {type(obj).__name__}')

    def setitem(self, obj, idx, v):
        obj = force(obj)
        if isinstance(obj, list):
            try:
                obj[self._conc_index(idx)] = v
            except IndexError:
                raise_py('IndexError', 'assignment index out of range')
            return
        if isinstance(obj, IDict):
            obj.set(idx, v)
            return
        from .arrays import AArr
        if isinstance(obj, AArr):
            obj.setitem(self, idx, v)
            return
        if isinstance(obj, Inst) and obj.cls.has('__setitem__'):
            self.call(self.getattr(obj, '__setitem__'), [idx, v], {})
            return
        raise OutOfSubset(f'item assignment on {type(obj).__name__}')


FSTR_HOLE = object()
_NO_MERGE = object()


class SuperProxy:
    def __init__(self, cls, obj):
        self.cls, self.obj = cls, obj


def qualprefix(env):
    e = env
    while e is not None:
        if '__qualprefix__' in e.vars:
            return e.vars['__qualprefix__']
        e = e.parent
    return ''


def cls_defines(cls, name):
    for c in cls.mro:
        if name in c.ns and isinstance(c.ns[name], FunctionVal):
            return True
    return False


_BINOPS = {ast.Add: '+', ast.Sub: '-', ast.Mult: '*', ast.Div: '/', ast.Pow: '**', ast.Mod: '%', ast.FloorDiv: '//',
           ast.MatMult: '@', ast.BitOr: '|', ast.BitAnd: '&'}
_CMPOPS = {ast.Lt: '<', ast.LtE: '<=', ast.Gt: '>', ast.GtE: '>='}
