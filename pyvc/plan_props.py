"""Property table (kept apart from plan.py so that plan.py stays small)."""
from .plan import register
from . import frame
from . import standin

BASE = ['elements']
NUM = ['z3', 'cpython', 'numpy-scalar']
NET = ['z3', 'cpython', 'numpy-scalar', 'numpy-array', 'solve', 'ring']

register('C01', level='other', sidecars=BASE + ['solution', 'net_bounded', 'net_ops_bounded', 'seq_network'], trusted=NET,
         explanation='proved: element value laws, predicates, voltage = potential difference, power = v*conj(i) (contracts on the real functions, all inputs). '
                     'bounded: the full solver on five fixed topologies with ALL element values symbolic - KCL at every node incl. the reference node, KVL, '
                     'every element law in the library reference directions, Tellegen, totality ("a valid network never fails to solve")')
register('C02', level='other', sidecars=BASE + ['components', 'periodic', 'transformers', 'solution', 'net_ops_bounded', 'net_bounded', 'seq_circuit'], trusted=NET,
         explanation='contracts on the component->branch translators (exact immittances and source phasors at every w, frequency gating), on '
                     'the DC/complex solution wrappers (peak vs RMS scaling, real part at w=0) and on the element value helpers; the network '
                     'solver underneath is covered under C01')
register('C03', level='other', sidecars=['net_bounded', 'net_ops_bounded', 'statespace', 'seq_network'], trusted=NET,
         explanation='bounded: renamed / permuted / terminal-reversed / re-referenced copies of topology T1 give the same physical results for all element values; '
                     'change of reference shifts all potentials by one constant')
register('C04', level='other', sidecars=BASE + ['net_bounded', 'net_ops_bounded', 'seq_network'], trusted=NET,
         explanation='bounded: superposition, scaling and zero-in/zero-out on topologies T1 and T3 through the library source-zeroing operations, all values symbolic')
register('C05', level='other', sidecars=BASE + ['solution', 'net_bounded', 'multifreq', 'statespace'], trusted=NET,
         explanation='contracts on get_power of the network, DC and complex solutions plus the loop-free sign lemmas for R, L, C element laws; Tellegen on the bounded topologies')
register('C06', level='other', sidecars=BASE + ['net_bounded', 'net_ops_bounded'], trusted=NET,
         explanation='bounded: port impedance of series/parallel ladders (symmetry, reference independence, identical nodes, element impedance), open-circuit voltage on T1')
register('C07', level='proof', sidecars=BASE + ['components', 'periodic', 'transformers', 'net_ops_bounded', 'seq_circuit'], trusted=NUM,
         explanation='one contract per translator and constructor, dispatch table contract')
from . import fourier_lemma
register('C08', level='proof', sidecars=['periodic'], trusted=NUM + ['sympy'], extras=[fourier_lemma.obligations],
         explanation='closed forms, a/b/c forms, lookup, time functions on open pieces')
register('C16', level='other', sidecars=BASE + ['net_ops_bounded', 'seq_network'], trusted=NET,
         explanation='bounded: short-circuit contraction (single, chains in both listing orders, star, parallel + reference, exempted), open removal, element removal, '
                     'reference switch, passive network - structure clauses plus equality of the solver result before/after for all element values')
register('C17', level='proof', sidecars=BASE + ['components', 'loaders', 'dump_load', 'seq_loaders'], trusted=NUM + ['json'],
         explanation='loader table, to_complex, load_network, dump_load round trips under the assumed json/yaml contract')
register('C19', level='proof', sidecars=BASE + ['components', 'periodic', 'loaders', 'dump_load', 'net_ops_bounded', 'statespace', 'seq_network', 'seq_circuit', 'seq_loaders', 'declarative'], trusted=NUM,
         explanation='raises-iff contracts on constructors and loaders')
register('C09', level='other', sidecars=BASE + ['components', 'periodic', 'transformers', 'multifreq'], trusted=NUM + ['numpy-array'], extras=[standin.make('frequencies', 'frequencies.py')],
         explanation='contracts on frequency_components (sinusoidal sources; periodic source with up to 8 harmonics), TimeDomainSolution (sum of |X_k| cos(w_k t + arg X_k), power = v(t) i(t)) '
                     'and FrequencyDomainSolution (one- and two-sided) for an arbitrary stubbed network solver; per-harmonic source phasors are the periodic translator contracts of C07')
register('C20', level='proof', sidecars=BASE + ['components', 'loaders', 'dump_load', 'net_ops_bounded', 'seq_loaders'], trusted=NUM + ['frame'], extras=[frame.obligations],
         explanation='FRAME pass (ownership analysis by syntactic rules, pyvc/frame.py) over every function of Network/, Circuit/, SignalProcessing/ and dump_load.py: each mutation site '
                     'mutates an object allocated by the same function; no global/nonlocal; module-level tables are never written. Plus the semantic frame obligations (inputs compared '
                     'before/after the call) of the loader contracts. History independence then follows: every operation is a function of its arguments and leaves pre-existing objects unchanged.')
register('C10', level='other', sidecars=BASE + ['statespace'], trusted=NET,
         explanation='bounded: on five RLC circuits (RC, series RLC, two sources with interleaved names, two inductors / two capacitors listed backwards) the transfer function '
                     'C (jwI - A)^-1 B + D of the real state_space_model equals, for symbolic w and all element values, the phasor response computed by the real ComplexSolution for each '
                     'source alone (and the DC gain the DC solution); states are identified as capacitor voltages / inductor currents; input columns follow the published source order')
register('C11', level='other', sidecars=['statespace'], trusted=NET,
         explanation='bounded: W*A + A^T*W is negative semidefinite (diagonal <= 0, det >= 0) for the 1- and 2-state circuits of C10, proved by z3 (nonlinear real arithmetic) for all positive element values')
register('C12', level='other', sidecars=BASE + ['statespace'], trusted=NET + ['lsim'],
         explanation='contracts on TransientSolution with a stubbed simulator (model matrices, zero initial state, input column order, outputs = C x + D u, power = v i, unknown ids) and, bounded, '
                     'KCL for every state and input, i = C dv/dt and v = L di/dt on the C10 circuits; the simulator itself (scipy lsim) is an assumed contract')
register('C18', level='other', sidecars=[], trusted=['cpython'], extras=[standin.make('display', 'display.py')],
         explanation='bounded stand-in only (B-C18): the real ScientificFloat / ScientificComplex / Display code is run on a grid of p-digit decimal mantissas times powers of ten, '
                     'their float neighbours, rounding-carry points, both signs, every prefix table of Display.py; the run-time contract (parse back within half a unit of the p-th digit, '
                     'exponent multiple of three, mantissa in [1,1000], sign kept, saturation to the infinity sign beyond the range) is evaluated on each')
register('C13', level='other', sidecars=BASE + ['components', 'schematic', 'schematic_parser'], trusted=NUM + ['schemdraw'], extras=[standin.make('drawing', 'drawing.py')],
         explanation='proved for all values / names / reversal flags (on the schemdraw interface model): each of the 27 symbol translators yields the intended component (kind, id, value as given, '
                     'polarity start->end unless reversed) and the translator table maps each symbol class to its own translator. Bounded: parser and circuit_translator on fixed drawings '
                     '(wire-connected terminals are one node, labels and ground name their nodes, insertion order irrelevant, distinct nodes get distinct names, >1 ground rejected, unknown symbol rejected); '
                     'real-schemdraw stand-in for rotation / unit / wire subdivision / label order')
register('C14', level='other', sidecars=['schematic_solution', 'declarative'], trusted=NUM + ['schemdraw'], extras=[standin.make('display', 'display.py')],
         explanation='proved at the call boundary for all values and options: each annotation adapter passes sign*quantity (sign = -1 iff reverse; potentials never negated), the right unit and the display '
                     'options to the display helper; draw_* request the text for that element and direction and hand it, with direction flag reverse xor element.is_reverse, to the label symbol; '
                     'unknown names raise. The display helpers (number -> text) are kept abstract here and covered by the C18 stand-in.')
register('C15', level='other', sidecars=['declarative'], trusted=NUM + ['schemdraw'], extras=[standin.make('drawing', 'drawing.py')],
         explanation='proved: the declarative handler table builds each symbol kind with the declared name, reversal flag and values equal to the programmatic construction; direction / place-after helpers '
                     'call exactly the named placement; unknown type / missing fields raise. Bounded stand-in on real schemdraw: every persistable symbol kind x reversal x (deg, sin) flags survives three '
                     'JSON save/load cycles with an identical translated circuit (ids, kinds, values, terminal order up to node renaming, reference node).')
