"""Property table (kept apart from plan.py so that plan.py stays small)."""
from .plan import register

BASE = ['elements']

register('C02', level='other', sidecars=BASE + ['components', 'periodic', 'transformers', 'solution'],
         trusted=['z3', 'cpython', 'numpy-scalar'],
         explanation='contracts on the component->branch translators (exact immittances and source phasors at every w, frequency gating), on '
                     'the DC/complex solution wrappers (peak vs RMS scaling, real part at w=0) and on the element value helpers; the network '
                     'solver underneath is covered under C01')
register('C05', level='other', sidecars=BASE + ['solution'],
         trusted=['z3', 'cpython', 'numpy-scalar'],
         explanation='contracts on get_power of the network, DC and complex solutions plus the loop-free sign lemmas for R, L, C element laws')
register('C07', level='proof', sidecars=BASE + ['components', 'periodic', 'transformers'],
         trusted=['z3', 'cpython', 'numpy-scalar'],
         explanation='one contract per translator and constructor, dispatch table contract')
register('C08', level='proof', sidecars=['periodic'],
         trusted=['z3', 'cpython', 'numpy-scalar'],
         explanation='closed forms, a/b/c forms, lookup, time functions on open pieces')
register('C17', level='proof', sidecars=BASE + ['components', 'loaders', 'dump_load'],
         trusted=['z3', 'cpython', 'numpy-scalar'],
         explanation='loader table, to_complex, load_network, dump_load round trips under the assumed json/yaml contract')
register('C19', level='proof', sidecars=BASE + ['components', 'periodic', 'loaders', 'dump_load'],
         trusted=['z3', 'cpython', 'numpy-scalar'],
         explanation='raises-iff contracts on constructors and loaders')
