"""Property table (kept apart from plan.py so that plan.py stays small)."""
from .plan import register

register('C07', level='proof',
         sidecars=['t0'],
         trusted=['z3', 'cpython', 'numpy-scalar'],
         explanation='work in progress')
