"""Contract vocabulary for sidecar files - the *concrete* reading (DESIGN 3.3, 3.10 "one text, two readings").

Sidecar files import only this module and the repository's own modules.  Under the symbolic interpreter the
same names are provided by pyvc.specsym; under CPython (replay, cross-checks, bounded stand-ins) by this file.
Pure Python, no third-party imports at module level.
"""
from __future__ import annotations
import math
import cmath

REGISTRY = []          # list of Contract
TOL_REL = 1e-7
TOL_ABS = 1e-9


class Contract:
    def __init__(self, target, cls, props, meta):
        self.target, self.cls, self.props, self.meta = target, cls, props, meta
        self.name = meta.get('name', cls.__name__)

    def fn(self, name):
        f = self.cls.__dict__.get(name)
        if isinstance(f, staticmethod):
            f = f.__func__
        return f


def contract(target, props=(), **meta):
    def deco(cls):
        REGISTRY.append(Contract(target, cls, list(props), meta))
        return cls
    return deco


def lemma(props=(), **meta):
    """A contract without target function: its `call` computes something from real functions and `ensures` relates them."""
    def deco(cls):
        REGISTRY.append(Contract(None, cls, list(props), meta))
        return cls
    return deco


def _num(x):
    try:
        import numpy as np
        if isinstance(x, np.generic):
            return x.item()
    except Exception:
        pass
    return x


def eq(a, b):
    """Equality up to floating-point tolerance on numbers (exact in the symbolic reading); structural otherwise."""
    a, b = _num(a), _num(b)
    if isinstance(a, (bool, str)) or isinstance(b, (bool, str)) or a is None or b is None:
        return a == b
    if isinstance(a, (int, float, complex)) and isinstance(b, (int, float, complex)):
        ca, cb = complex(a), complex(b)
        for u, v in ((ca.real, cb.real), (ca.imag, cb.imag)):
            if math.isnan(u) or math.isnan(v):
                if not (math.isnan(u) and math.isnan(v)):
                    return False
                continue
            if math.isinf(u) or math.isinf(v):
                if u != v:
                    return False
        if not (cmath.isfinite(ca) and cmath.isfinite(cb)):
            return True
        return abs(ca - cb) <= TOL_ABS + TOL_REL * max(abs(ca), abs(cb))
    if isinstance(a, (list, tuple)) and isinstance(b, (list, tuple)):
        return len(a) == len(b) and all(eq(x, y) for x, y in zip(a, b))
    if isinstance(a, dict) and isinstance(b, dict):
        return set(a) == set(b) and all(eq(a[k], b[k]) for k in a)
    try:
        import numpy as np
        if isinstance(a, np.ndarray) or isinstance(b, np.ndarray):
            a, b = np.asarray(a), np.asarray(b)
            return a.shape == b.shape and all(eq(x, y) for x, y in zip(a.reshape(-1).tolist(), b.reshape(-1).tolist()))
    except ImportError:
        pass
    import dataclasses
    if dataclasses.is_dataclass(a) and dataclasses.is_dataclass(b) and type(a) is type(b):
        return all(eq(getattr(a, f.name), getattr(b, f.name)) for f in dataclasses.fields(a))
    return a == b


def implies(a, b):
    """b may be a zero-argument callable; it is then only evaluated when a holds (for guarded attribute access)."""
    if not a:
        return True
    return bool(b() if callable(b) else b)


def iff(a, b):
    return bool(a) == bool(b)


def forall(xs, pred):
    return all(pred(x) for x in xs)


def exists(xs, pred):
    return any(pred(x) for x in xs)


def ite(c, a, b):
    return a if c else b


def balanced(terms):
    """The terms sum to zero (exactly in the symbolic reading; natively within round-off relative to the largest term)."""
    terms = [complex(_num(t)) for t in terms]
    scale = max([abs(t) for t in terms] + [0.0])
    return abs(sum(terms)) <= TOL_ABS + 1e-6 * scale


def indices(xs):
    """range(len(xs)); in the symbolic reading the index range of an abstract (unbounded) sequence."""
    return range(xs if isinstance(xs, int) else len(xs))


def total(xs, term):
    """sum(term(x) for x in xs) (an uninterpreted sum with extensionality in the symbolic reading)."""
    return sum(term(x) for x in xs)


def is_real(x):
    x = _num(x)
    return isinstance(x, (int, float)) or (isinstance(x, complex) and abs(x.imag) <= TOL_ABS + TOL_REL * abs(x))


def ge(a, b):
    """a >= b up to tolerance (exact symbolically)."""
    a, b = _num(a), _num(b)
    return a >= b - (TOL_ABS + TOL_REL * max(abs(a), abs(b)))


def le(a, b):
    return ge(b, a)


def nonsingular(A):
    """The square matrix A is invertible (exact in the symbolic reading; |det| above round-off natively)."""
    import numpy as np
    A = np.asarray(A, dtype=complex)
    if A.shape[0] == 0:
        return True
    scale = max(1e-300, float(np.max(np.abs(A)))) ** A.shape[0]
    return bool(abs(np.linalg.det(A)) > 1e-9 * scale)


def json_file(document):
    """Path of a (temporary) file that holds the JSON text of `document` - the assumed contract of the file system and of
    json.dump: reading the file back with json.load gives the document."""
    import json
    import tempfile
    f = tempfile.NamedTemporaryFile('w', suffix='.json', delete=False, prefix='pyvc-')
    json.dump(document, f)
    f.close()
    return f.name


def raised(result, *classes):
    """For contracts with `total = True`: the outcome is passed as `result`; True iff it is an exception of a class."""
    return isinstance(result, Raised) and (not classes or isinstance(result.exc, tuple(classes)))


class Raised:
    def __init__(self, exc):
        self.exc = exc

    def __repr__(self):
        return f'Raised({self.exc!r})'


# ------------------------------------------------------------------------------------------------
# concrete input generators


class ConcreteGen:
    """Leaves come from a model (dict name -> value); missing leaves get defaults or random values."""

    def __init__(self, values=None, rng=None, moderate=False):
        self.values = dict(values or {})
        self.rng = rng
        self.used = {}
        self.moderate = moderate      # well-conditioned random values (small rationals): for the bounded search, whose run-time
                                      # oracle compares floats and must not mistake round-off for a violation

    def _get(self, name, kind, default):
        if name in self.used:
            return self.used[name]          # one leaf, one value: contracts may mention a leaf twice (e.g. an untouched copy to compare with)
        if name in self.values:
            v = self.values[name]
        elif self.rng is not None:
            v = default()
        else:
            v = default()
        self.used[name] = v
        return v

    def real(self, name, lo=None, hi=None):
        def d():
            if self.rng is None:
                return 1.0
            r = self.rng
            choice = r.random()
            hist = self.__dict__.setdefault('_history', [])
            if self.moderate:
                c2 = r.random()
                if hist and c2 < 0.15:
                    v = r.choice(hist)
                elif c2 < 0.25:
                    v = 0.0
                elif c2 < 0.5:
                    v = float(r.randint(-4, 4))
                else:
                    v = r.randint(-40, 40) / r.choice([1, 2, 4, 5, 10])
            elif hist and r.random() < 0.15:
                v = r.choice(hist)           # coincidences (equal element values) are rare by chance but matter
            elif choice < 0.12:
                v = 0.0
            elif choice < 0.24:
                v = float(r.randint(-3, 3))
            elif choice < 0.36:
                v = float(r.randint(1, 9)) * 10.0 ** r.randint(-9, 9)      # decades: 1e-05, 2e-07, 3e+16 ...
            else:
                v = r.choice([-1, 1]) * 10 ** r.uniform(-3, 3)
            if lo is not None and v < lo:
                v = lo + abs(v)
            if hi is not None and v > hi:
                v = hi - abs(v)
            hist.append(v)
            return v
        return float(self._get(name, 'real', d))

    def pos(self, name):
        return abs(self.real(name)) or 1.0

    def int(self, name, lo=None, hi=None):
        def d():
            if self.rng is None:
                return 1 if lo is None else lo
            a = -5 if lo is None else lo
            b = 9 if hi is None else hi
            return self.rng.randint(a, b)
        return int(self._get(name, 'int', d))

    def complex(self, name):
        v = self._get(name, 'complex', lambda: complex(1.0, 0.5) if self.rng is None else complex(self.real(name + '.re'), self.real(name + '.im')))
        if isinstance(v, (list, tuple)):
            v = complex(v[0], v[1])
        return complex(v)

    def bool(self, name):
        return bool(self._get(name, 'bool', lambda: False if self.rng is None else self.rng.random() < 0.5))

    def label(self, name):
        return str(self._get(name, 'label', lambda: name if self.rng is None else self.rng.choice(['0', '1', '10', '2', 'a', 'B', name, 'n' + name])))

    def choice(self, name, options):
        options = list(options)
        v = self._get(name, 'choice', lambda: 0 if self.rng is None else self.rng.randrange(len(options)))
        return options[int(v)]

    def list(self, name, element, min_len=0, max_len=4):
        """A list of arbitrary length (symbolic length in the symbolic reading) whose i-th element is element(g_i)."""
        key = name + '.len'
        n = self._get(key, 'int', lambda: min_len if self.rng is None else self.rng.randint(min_len, max_len))
        n = max(int(n), 0)
        return [element(_IndexedGen(self, name, i)) for i in range(n)]


class _IndexedGen:
    """Generator for the leaves of one list element: leaf `x` of element i of list L is called `L[i].x`."""

    def __init__(self, outer, name, i):
        self._outer, self._prefix = outer, f'{name}[{i}].'

    def __getattr__(self, meth):
        f = getattr(self._outer, meth)

        def call(name, *a, **k):
            return f(self._prefix + name, *a, **k)
        return call
