"""Contract verification: path exploration of the real function, VC generation, discharge, counter-models."""
from __future__ import annotations
import hashlib
import os
import time
import traceback
import subprocess
import tempfile
import z3
from .values import z3check
from .values import (CTX, PyRaise, OutOfSubset, Infeasible, PathExplosion, SNum, SBool, SLabel, SChoice, ClassVal, Inst, FunctionVal,
                     PropertyVal, StaticVal, ModuleVal, Opaque, IDict, ISet, Builtin, explore, force, lift, zbool)
from . import ops, specsym
from .ops import truth, eq_value
from .interp import Universe
from .builtins_ import GLOBAL_AXIOMS, AXIOM_LIST
from .specsym import SymGen, RaisedVal
from .abstract import AList


class PreFalse(Exception):
    pass


class PathRecord:
    def __init__(self):
        self.kind = None
        self.result = None
        self.pre_len = 0
        self.clauses = {}        # obligation id -> z3 Bool
        self.notes = []
        self.leaves = {}
        self.inputs = None


def background():
    return list(GLOBAL_AXIOMS) + CTX.string_axioms()


def numeric_counterexample(conds, goal, leaves, tries=400):
    """Random search for leaf values on which every path condition holds and the goal does not (floating point with
    margins, real cos/sin/...).  Used when the SMT solver gives up on a query that the ring back end could not prove."""
    import random
    from . import xcheck
    from .zeval import zeval, Unevaluable, Ambiguous
    rng = random.Random(4711)
    for _ in range(tries):
        lv = xcheck.random_leaves(leaves, rng)
        if lv is None:
            return None
        try:
            env = xcheck.env_of(lv, leaves)
            cache = {}
            if all(zeval(c, env, cache) for c in conds) and not zeval(goal, env, cache):
                return lv
        except (Unevaluable, Ambiguous, ZeroDivisionError, OverflowError, ValueError, KeyError):
            continue
    return None


def has_quantifier(terms):
    seen = set()
    stack = list(terms)
    while stack:
        t = stack.pop()
        if t.get_id() in seen:
            continue
        seen.add(t.get_id())
        if z3.is_quantifier(t):
            return True
        stack.extend(t.children())
    return False


_TRANSCENDENTAL = {'cos', 'sin', 'sqrt', 'cabs', 'carg', 'exp', 'log10', 'round'}


def mentions_transcendental(t):
    seen, stack = set(), [t]
    while stack:
        x = stack.pop()
        if x.get_id() in seen:
            continue
        seen.add(x.get_id())
        if z3.is_app(x) and x.decl().name() in _TRANSCENDENTAL:
            return True
        if z3.is_quantifier(x):
            stack.append(x.body())
        else:
            stack.extend(x.children())
    return False


def mentions_opaque(terms):
    seen, stack = set(), list(terms)
    while stack:
        x = stack.pop()
        if x.get_id() in seen:
            continue
        seen.add(x.get_id())
        if z3.is_const(x) and x.decl().kind() == z3.Z3_OP_UNINTERPRETED and x.decl().name().startswith('opaque.'):
            return True
        if z3.is_quantifier(x):
            stack.append(x.body())
        else:
            stack.extend(x.children())
    return False


def opaque_consts(terms):
    seen, stack, out = set(), list(terms), {}
    while stack:
        x = stack.pop()
        if x.get_id() in seen:
            continue
        seen.add(x.get_id())
        if z3.is_const(x) and x.decl().kind() == z3.Z3_OP_UNINTERPRETED and x.decl().name().startswith('opaque.') and z3.is_bool(x):
            out[x.decl().name()] = x
        if z3.is_quantifier(x):
            stack.append(x.body())
        else:
            stack.extend(x.children())
    return list(out.values())


def opaque_independent(conds, goal, timeout_ms, model=None, leaves=None):
    """The refutation does not hinge on the outcome of comparisons with unmodelled library values: for the inputs of the
    counter-model, no outcome of those comparisons that is compatible with this path makes the clause true."""
    cs = opaque_consts(list(conds) + [goal])
    if not cs:
        return True
    fixed = []
    if model is not None and leaves:
        for name, (kind, t) in leaves.items():
            terms = []
            if kind in ('real', 'int', 'choice', 'bool', 'label'):
                terms = [t]
            elif kind == 'complex':
                terms = list(t)
            for x in terms:
                try:
                    fixed.append(x == model.eval(x, model_completion=True))
                except Exception:      # noqa
                    return False
    else:
        return False
    st, _, _, _ = solve(list(conds) + fixed + [goal], min(timeout_ms, 5000), want_model=False, use_cvc5=False)
    return st == 'unsat'


def solve_quantified(conds, goal, timeout_ms, bigsums=()):
    """Goals over abstract sequences: plain SMT with quantifier instantiation; sums get their extensionality facts first.
    First attempt without the quantified axiom instances of cos/sin/... (dropping assumptions is sound for a proof and
    keeps non-linear arithmetic out of the quantifier instantiation); second attempt with everything."""
    from . import seq
    t0 = time.time()
    if not bigsums and not mentions_transcendental(goal):
        light = [c for c in conds if not (z3.is_quantifier(c) and mentions_transcendental(c))]
        if len(light) < len(conds):
            st, model, ms, be = solve_plain(light + [z3.Not(goal)], max(1000, timeout_ms // 3))
            if st == 'unsat':
                return st, model, ms, be + ' (structural facts only)'
    facts = []
    if bigsums:
        saved = list(seq.BIGSUMS)
        seq.BIGSUMS[:] = list(bigsums)
        try:
            facts = seq.extensionality_facts(lambda a: solve_plain(list(conds) + a, min(timeout_ms, 3000))[0])
        finally:
            seq.BIGSUMS[:] = saved
    st, model, ms, be = solve_plain(list(conds) + facts + [z3.Not(goal)], timeout_ms)
    return st, model, int((time.time() - t0) * 1000), be + ('+sum-extensionality' if facts else '')


def solve_plain(assertions, timeout_ms):
    t0 = time.time()
    s = z3.Solver()
    s.set('timeout', timeout_ms)
    s.add(*background())
    s.add(*assertions)
    r = z3check(s, timeout_ms)
    ms = int((time.time() - t0) * 1000)
    if r == z3.unsat:
        return 'unsat', None, ms, 'z3(quantifiers)'
    if r == z3.sat:
        return 'sat', s.model(), ms, 'z3(quantifiers)'
    if os.path.exists('/usr/bin/cvc5'):
        try:
            with tempfile.NamedTemporaryFile('w', suffix='.smt2', delete=False) as f:
                f.write(s.to_smt2())
                fn = f.name
            try:
                out = subprocess.run(['/usr/bin/cvc5', f'--tlimit={timeout_ms}', fn], capture_output=True, text=True,
                                     timeout=timeout_ms / 1000 + 5).stdout.strip().splitlines()
            finally:
                os.unlink(fn)
            if out and out[0] == 'unsat':
                return 'unsat', None, int((time.time() - t0) * 1000), 'cvc5(quantifiers)'
        except Exception:
            pass
    return 'unknown', None, int((time.time() - t0) * 1000), 'z3(quantifiers)'


def solve_goal(conds, goal, timeout_ms, bigsums=()):
    """Discharge conds => goal.  Equality atoms that are identities of rational functions are decided by the ring
    back end (polynomial normalisation) first; the residual goal goes to the SMT solvers."""
    from . import ring
    if bigsums or has_quantifier(list(conds) + [goal]):
        return solve_quantified(conds, goal, timeout_ms, bigsums)
    t0 = time.time()
    stats = {}
    g2 = goal
    before = dict(ring.STATS)
    try:
        subs = ring.substitutions(conds)
        g1 = z3.substitute(goal, *subs) if subs else goal
        g2 = z3.simplify(ring.simplify_goal(g1, stats=stats))
    except Exception:
        g2 = goal
    ms0 = int((time.time() - t0) * 1000)
    tag = 'ring(pit)' if ring.STATS['pit'] > before['pit'] else 'ring(exact)'
    if z3.is_true(g2):
        return 'unsat', None, ms0, tag
    st, model, ms, be = solve(list(conds) + [z3.Not(g2)], timeout_ms)
    if stats.get('identities'):
        be = tag + '+' + be
    return st, model, ms + ms0, be


def solve(assertions, timeout_ms, want_model=True, use_cvc5=True):
    """-> (status, model, ms, backend)."""
    t0 = time.time()
    s = z3.Solver()
    s.set('timeout', timeout_ms)
    s.add(*background())
    s.add(*assertions)
    r = z3check(s, timeout_ms)
    ms = int((time.time() - t0) * 1000)
    if r == z3.unsat:
        return 'unsat', None, ms, 'z3'
    if r == z3.sat:
        return 'sat', (s.model() if want_model else None), ms, 'z3'
    # second opinion: nlsat tactic, then cvc5 on the SMT-LIB dump
    try:
        t1 = time.time()
        tac = z3.Then('simplify', 'purify-arith', 'qfnra-nlsat').solver()
        tac.set('timeout', timeout_ms)
        tac.add(*background())
        tac.add(*assertions)
        r2 = z3check(tac, timeout_ms)
        ms2 = int((time.time() - t1) * 1000)
        if r2 == z3.unsat:
            return 'unsat', None, ms + ms2, 'z3-nlsat'
        if r2 == z3.sat:
            return 'sat', (tac.model() if want_model else None), ms + ms2, 'z3-nlsat'
    except z3.Z3Exception:
        pass
    if use_cvc5 and os.path.exists('/usr/bin/cvc5'):
        try:
            t1 = time.time()
            smt = s.to_smt2()
            logic_free = smt
            with tempfile.NamedTemporaryFile('w', suffix='.smt2', delete=False) as f:
                f.write(logic_free)
                fn = f.name
            try:
                out = subprocess.run(['/usr/bin/cvc5', '--nl-ext-tplanes', f'--tlimit={timeout_ms}', fn], capture_output=True, text=True,
                                     timeout=timeout_ms / 1000 + 5).stdout.strip().splitlines()
            finally:
                os.unlink(fn)
            ms3 = int((time.time() - t1) * 1000)
            if out and out[0] == 'unsat':
                return 'unsat', None, ms + ms3, 'cvc5'
        except Exception:
            pass
    return 'unknown', None, int((time.time() - t0) * 1000), 'z3'


class Engine:
    def __init__(self, repo_src, verif_dir, sidecar_pkg='contracts'):
        self.repo_src = repo_src
        self.verif_dir = verif_dir
        self.u = Universe({'CircuitCalculator': repo_src, sidecar_pkg: verif_dir})
        self.I = self.u.interp
        self.sidecar_pkg = sidecar_pkg
        specsym.UNIVERSE[0] = self.u
        self.touched = None
        self._install_trace()

    ABSTRACT_PREFIXES = ('CircuitCalculator.SimpleCircuit.Display.print_',)

    def _abstract_hook(self, fn, args, kwargs):
        """Callees kept abstract: the display helpers (number formatting, property C18) are uninterpreted functions of their
        bound arguments, so that callers are verified against the call boundary (which value, unit and options are passed)."""
        from .values import AbstractCall
        if fn.module is not None:
            q = fn.module.name + '.' + fn.qualname
            if q.startswith(self.ABSTRACT_PREFIXES):
                env = self.I.bind(fn, args, kwargs)
                names = [p.arg for p in fn.node.args.posonlyargs + fn.node.args.args + fn.node.args.kwonlyargs]
                return True, AbstractCall(q, {n: env.vars[n] for n in names})
        return False, None

    def _install_trace(self):
        self.I.call_hook = self._abstract_hook
        orig = self.I.call_function

        def traced(fn, args, kwargs):
            if self.touched is not None and fn.module is not None and fn.module.name.startswith('CircuitCalculator'):
                self.touched.add(fn.module.name + '.' + fn.qualname)
            return orig(fn, args, kwargs)
        self.I.call_function = traced

    def load_sidecar(self, name):
        return self.u.module(self.sidecar_pkg + '.' + name)

    def contracts(self, sidecar=None):
        return [c for c in self.u.contracts if sidecar is None or c['module'] == self.sidecar_pkg + '.' + sidecar]

    # ------------------------------------------------------------------
    def resolve(self, dotted):
        parts = dotted.split('.')
        for k in range(len(parts), 0, -1):
            name = '.'.join(parts[:k])
            if self.u.find(name) is not None:
                obj = self.u.module(name)
                for p in parts[k:]:
                    if isinstance(obj, ModuleVal):
                        if p not in obj.ns:
                            return None
                        obj = obj.ns[p]
                    elif isinstance(obj, ClassVal):
                        try:
                            obj = obj.lookup(p)
                        except KeyError:
                            return None
                    else:
                        return None
                return obj
        return None

    def source_info(self, dotted):
        obj = self.resolve(dotted)
        if isinstance(obj, PropertyVal):
            obj = obj.fget
        if isinstance(obj, StaticVal):
            obj = obj.fn
        node, mod = None, None
        if isinstance(obj, FunctionVal):
            node, mod = obj.node, obj.module
        elif isinstance(obj, ClassVal):
            node, mod = getattr(obj, 'node', None), obj.module
        if node is None or mod is None or mod.name not in self.u.files:
            return None
        path, src = self.u.files[mod.name]
        lines = src.splitlines()
        start = min([node.lineno] + [d.lineno for d in getattr(node, 'decorator_list', [])])
        text = '\n'.join(lines[start - 1:node.end_lineno])
        return {'file': os.path.relpath(path, os.path.dirname(os.path.dirname(self.repo_src))) if path.startswith(os.path.dirname(self.repo_src)) else path,
                'lines': [start, node.end_lineno], 'sha256': hashlib.sha256(text.encode()).hexdigest()}

    # ------------------------------------------------------------------
    def _eval_clauses(self, fn, kwargs):
        """Evaluate a contract method that returns a dict of named boolean clauses -> {name: z3 Bool}, notes."""
        I = self.I
        outer = CTX.path
        outs = explore(lambda: I.call(fn, [], kwargs), base=outer.all_conds(), want_local_conds=True)
        names = None
        per = []
        notes = []
        for o in outs:
            c = z3.And(*o.conds) if o.conds else z3.BoolVal(True)
            if o.kind == 'exc':
                notes.append(f'contract expression raises {o.value.cls.name}{o.value.attrs.get("args", ())}')
                per.append((c, None))
                continue
            v = force_plain(o.value)
            if isinstance(v, IDict):
                d = {}
                for k, x in v.items():
                    d[str(k)] = x
            else:
                d = {'': v}
            if names is None:
                names = list(d)
            per.append((c, d))
        if names is None:
            # the contract expression could not be evaluated on any path (typically on an infeasible path that a timed-out
            # feasibility query failed to prune): not a verdict about the code
            raise OutOfSubset('contract expression not evaluable on this path: ' + '; '.join(sorted(set(notes)))[:300])
        res = {}
        for n in names:
            terms = []
            for c, d in per:
                if d is None or n not in d:
                    continue       # undefined -> false under c
                x = force_plain(d[n])
                if isinstance(x, bool):
                    if x:
                        terms.append(c)
                elif isinstance(x, SBool):
                    terms.append(z3.And(c, x.t))
                else:
                    notes.append(f'clause {n!r} is not boolean: {type(x).__name__}')
            res[n] = z3.simplify(z3.Or(*terms)) if terms else z3.BoolVal(False)
        return res, notes

    def run_contract_path(self, c):
        """Executed once per path (by values.explore)."""
        I = self.I
        cls = c['cls']
        rec = PathRecord()
        g = SymGen()
        from . import seq
        seq.reset()
        CTX.__dict__['memo_tables'] = {}          # lru_cache tables live for one path execution
        inputs = I.call(cls.lookup('inputs'), [g], {})
        inputs = force(inputs)
        if not isinstance(inputs, IDict):
            raise OutOfSubset('inputs() must return a dict')
        kwargs = {str(k): v for k, v in inputs.items()}
        rec.leaves = g.leaves
        CTX.path.init_pool(g.leaves)
        if cls.has('requires'):
            if not truth(I.call(cls.lookup('requires'), [], kwargs)):
                raise PreFalse()
        rec.pre_len = len(CTX.path.conds)
        snap = snapshot(kwargs)
        target = self.resolve(c['target']) if c['target'] else None
        try:
            if cls.has('call'):
                res = I.call(cls.lookup('call'), [target], kwargs)
            else:
                res = I.call(target, [], kwargs)
            rec.kind = 'ret'
            rec.result = res
        except PyRaise as e:
            rec.kind = 'exc'
            rec.result = RaisedVal(e.exc)
        total = truth(cls.lookup('total')) if cls.has('total') else False
        # frame
        if not (cls.has('frame') and cls.lookup('frame') is False):
            rec.clauses['frame'] = z3.simplify(z3.And(same_state(snap, kwargs), seq.frame_clause()))
        # raises
        declared = []
        if cls.has('raises'):
            rz, notes = self._eval_raises(cls.lookup('raises'), kwargs)
            rec.notes += notes
            declared = rz
        if not total:
            if rec.kind == 'ret':
                if declared:
                    rec.clauses['raises.complete'] = z3.simplify(z3.And(*[z3.Not(cond) for _, cond in declared]))
            else:
                just = [cond for E, cond in declared if rec.result.exc.cls.issubclass(E)]
                rec.clauses['raises.sound'] = z3.simplify(z3.Or(*just)) if just else z3.BoolVal(False)
                rec.exc_name = rec.result.exc.cls.name
        if cls.has('ensures') and (rec.kind == 'ret' or total):
            kw = dict(kwargs)
            kw['result'] = rec.result
            cl, notes = self._eval_clauses(cls.lookup('ensures'), kw)
            rec.notes += notes
            for k, v in cl.items():
                rec.clauses['post' + ('.' + k if k else '')] = v
        rec.inputs = kwargs
        rec.bigsums = list(seq.BIGSUMS)
        return rec

    def _eval_raises(self, fn, kwargs):
        I = self.I
        outer = CTX.path
        outs = explore(lambda: I.call(fn, [], kwargs), base=outer.all_conds(), want_local_conds=True)
        acc = {}
        notes = []
        order = []
        for o in outs:
            c = z3.And(*o.conds) if o.conds else z3.BoolVal(True)
            if o.kind == 'exc':
                notes.append('raises() itself raises ' + o.value.cls.name)
                continue
            d = force_plain(o.value)
            if not isinstance(d, IDict):
                raise OutOfSubset('raises() must return a dict {ExceptionClass: condition}')
            for E, cond in d.items():
                cond = force_plain(cond)
                t = z3.BoolVal(cond) if isinstance(cond, bool) else zbool(cond)
                if id(E) not in acc:
                    acc[id(E)] = (E, [])
                    order.append(id(E))
                acc[id(E)][1].append(z3.And(c, t))
        return [(acc[i][0], z3.simplify(z3.Or(*acc[i][1]))) for i in order], notes

    # ------------------------------------------------------------------
    def verify(self, c, timeout_ms=10000, max_models=1):
        """Verify one contract.  Contracts over code that iterates sets are verified under two iteration orders."""
        out = self._verify(c, timeout_ms)
        if c['meta'].get('set_order_dependent_result') and out.get('obligations'):
            CTX.set_reversed = True
            try:
                recs = self.last_recs
                second = self._verify(c, timeout_ms)
                self.last_recs = recs
            finally:
                CTX.set_reversed = False
            for o in second.get('obligations', []):
                o['id'] = o['id'] + ' [reversed set iteration order]'
                out['obligations'].append(o)
            sts = [o['status'] for o in out['obligations']]
            out['status'] = 'failed' if 'failed' in sts else ('undecided' if 'undecided' in sts else out['status'])
            if second['status'] not in ('discharged', 'failed', 'undecided'):
                out['status'] = second['status']
                out['notes'] += second.get('notes', [])
        return out

    def _verify(self, c, timeout_ms=10000):
        """Verify one contract.  Returns a JSON-able dict."""
        t0 = time.time()
        CTX.counter = 0
        self.touched = set()
        out = {'contract': c['name'], 'sidecar': c['module'], 'target': c['target'], 'props': c['props'], 'status': None,
               'obligations': [], 'paths': 0, 'notes': [], 'source': self.source_info(c['target']) if c['target'] else None,
               'bounded': c['meta'].get('bounded')}
        if c['target'] and self.resolve(c['target']) is None:
            out['status'] = 'undecided'
            out['notes'].append(f'target {c["target"]} not found in the repository (renamed or deleted?)')
            return out
        try:
            def thunk():
                CTX.counter = 0
                try:
                    return self.run_contract_path(c)
                except PreFalse:
                    raise Infeasible()
            outs = explore(thunk)
        except OutOfSubset as e:
            out['status'] = 'out-of-subset'
            out['notes'].append(str(e))
            out['trace'] = traceback.format_exc(limit=8)
            return out
        except PathExplosion:
            out['status'] = 'undecided'
            out['notes'].append('path explosion')
            return out
        except PyRaise as e:
            out['status'] = 'contract-error'
            out['notes'].append(f'contract set-up raises {e.exc.cls.name}{e.exc.attrs.get("args", ())}')
            return out
        recs = []
        for o in outs:
            if o.kind == 'exc':
                out['status'] = 'contract-error'
                out['notes'].append(f'contract set-up raises {o.value.cls.name}{o.value.attrs.get("args", ())}')
                return out
            recs.append((o.conds, o.value))
        out['paths'] = len(recs)
        out['inlined'] = sorted(self.touched)
        self.last_recs = recs
        # vacuity: precondition satisfiable and the call reachable
        oblig = {}

        def ob(oid):
            if oid not in oblig:
                oblig[oid] = {'id': oid, 'status': 'discharged', 'queries': [], 'ms': 0}
            return oblig[oid]
        vac = ob('pre.sat')
        if not recs:
            vac['status'] = 'failed'
            vac['reason'] = 'precondition unsatisfiable or no path reaches the call (vacuous contract)'
        else:
            vac['status'] = 'undecided'
            w = self._numeric_witness(recs, tries=60)
            if w is not None:
                vac['status'] = 'discharged'
                vac['queries'].append({'path': w[0], 'result': 'sat', 'ms': 0, 'backend': 'numeric witness (zeval)', 'expect': 'sat'})
                out['pre_witness'] = w[1]
            for pi, (conds, rec) in enumerate(recs[:8] if vac['status'] != 'discharged' else []):
                if has_quantifier(conds):
                    st, model, ms, be = solve_plain(list(conds), min(timeout_ms, 1500))
                else:
                    st, model, ms, be = solve(conds, min(timeout_ms, 5000))
                vac['ms'] += ms
                vac['queries'].append({'path': pi, 'result': st, 'ms': ms, 'backend': be, 'expect': 'sat'})
                if st == 'sat':
                    vac['status'] = 'discharged'
                    out['pre_witness'] = self.model_leaves(model, rec.leaves)
                    break
            if vac['status'] != 'discharged':
                w = self._numeric_witness(recs)
                if w is not None:
                    vac['status'] = 'discharged'
                    vac['queries'].append({'path': w[0], 'result': 'sat', 'ms': 0, 'backend': 'numeric witness (zeval)', 'expect': 'sat'})
                    out['pre_witness'] = w[1]
            if vac['status'] != 'discharged' and any(kind == 'list' for kind, _ in recs[0][1].leaves.values()):
                # satisfiability of a quantified precondition is often `unknown` to the solver: a CPython run of the real
                # function on random inputs that satisfy `requires` is an equally good witness
                try:
                    from . import xcheck
                    r = xcheck.run_native([{'sidecar': c['module'], 'contract': c['name'], 'random': 60, 'seed': 5}], self.repo_src, self.verif_dir)[0]
                    if r.get('pre_held', 0) > 0:
                        vac['status'] = 'discharged'
                        vac['queries'].append({'path': None, 'result': 'sat', 'ms': 0, 'backend': f'CPython witness ({r["pre_held"]} of {r["tried"]} random inputs satisfy requires)', 'expect': 'sat'})
                except Exception as e:      # noqa
                    out['notes'].append('native witness search failed: ' + str(e)[:200])
            if vac['status'] != 'discharged' and all(q['result'] == 'unsat' for q in vac['queries']) and len(recs) <= 8:
                vac['status'] = 'failed'
                vac['reason'] = 'every path is infeasible (vacuous contract)'
        for pi, (conds, rec) in enumerate(recs):
            for note in rec.notes:
                if note not in out['notes']:
                    out['notes'].append(note)
            for oid, goal in rec.clauses.items():
                o = ob(oid)
                if z3.is_true(goal):
                    o['queries'].append({'path': pi, 'result': 'trivial', 'ms': 0, 'backend': 'simplifier'})
                    continue
                # budget: after a refuted obligation the verdict of this contract is settled, after three `unknown`s it is undecided
                # anyway - the remaining obligations then get a token budget, so that a (mutated) function whose conditions the
                # solver cannot digest costs seconds, not minutes
                spent_unknown = sum(1 for x in oblig.values() for q in x['queries'] if q.get('result') == 'unknown')
                any_failed = any(x['status'] == 'failed' for x in oblig.values())
                budget = timeout_ms if not (any_failed or spent_unknown >= 3) else min(timeout_ms, 1000)
                st, model, ms, be = solve_goal(conds, goal, budget, getattr(rec, 'bigsums', ()))
                if st == 'sat' and mentions_opaque(list(conds) + [goal]) and not opaque_independent(conds, goal, budget, model, rec.leaves):
                    # the "counter-model" chooses the outcome of a comparison with an unmodelled library value: that is no verdict
                    # (it stands only if a counter-model exists whichever way those comparisons come out)
                    st, be = 'unknown', be + ' (depends on an unmodelled library value)'
                    if 'obligation depends on an unmodelled library value (comparison with an opaque result)' not in out['notes']:
                        out['notes'].append('obligation depends on an unmodelled library value (comparison with an opaque result)')
                if st == 'sat':
                    lens = [t['len'] for kind, t in rec.leaves.values() if kind == 'list']
                    for bound in (2, 4):
                        if not lens:
                            break
                        st2, model2, _, _ = solve_plain(list(conds) + [z3.Not(goal)] + [l <= bound for l in lens], min(timeout_ms, 5000))
                        if st2 == 'sat':       # prefer a short list as counterexample
                            model = model2
                            break
                num_ce = None
                if st == 'unknown':
                    num_ce = numeric_counterexample(conds, goal, rec.leaves)
                    if num_ce is not None:
                        st, be = 'sat', be + '+numeric-search'
                o['ms'] += ms
                q = {'path': pi, 'result': st, 'ms': ms, 'backend': be}
                if oid == 'raises.sound':
                    q['raised'] = getattr(rec, 'exc_name', None)
                o['queries'].append(q)
                if st == 'sat':
                    o['status'] = 'failed'
                    if 'counterexamples' not in o:
                        o['counterexamples'] = []
                    if len(o['counterexamples']) < 3:
                        ce = {'path': pi, 'leaves': num_ce if num_ce is not None else self.model_leaves(model, rec.leaves), 'outcome': rec.kind}
                        if rec.kind == 'exc':
                            ce['raised'] = rec.result.exc.cls.name
                        o['counterexamples'].append(ce)
                elif st == 'unknown' and o['status'] == 'discharged':
                    o['status'] = 'undecided'
        out['obligations'] = list(oblig.values())
        sts = [o['status'] for o in out['obligations']]
        out['status'] = 'failed' if 'failed' in sts else ('undecided' if 'undecided' in sts else 'discharged')
        out['wall_s'] = round(time.time() - t0, 3)
        return out

    def _numeric_witness(self, recs, tries=300):
        """A concrete input on which all conditions of some path evaluate to true (floating point, with margins)."""
        import random
        from . import xcheck
        from .zeval import zeval, Unevaluable, Ambiguous
        rng = random.Random(12345)
        leaves = recs[0][1].leaves
        for _ in range(tries):
            lv = xcheck.random_leaves(leaves, rng)
            if lv is None:
                return None
            try:
                env = xcheck.env_of(lv, leaves)
            except Exception:
                continue
            for pi, (conds, rec) in enumerate(recs):
                try:
                    cache = {}
                    if all(zeval(c, env, cache) for c in conds):
                        return pi, lv
                except (Unevaluable, Ambiguous, ZeroDivisionError, OverflowError, ValueError):
                    continue
        return None

    def model_leaves(self, model, leaves):
        from fractions import Fraction
        res = {}
        if model is None:
            return res

        def num(t):
            v = model.eval(t, model_completion=True)
            if z3.is_int_value(v):
                return v.as_long()
            if z3.is_rational_value(v):
                return [v.numerator_as_long(), v.denominator_as_long()]
            if z3.is_algebraic_value(v):
                f = v.approx(20).as_fraction()
                return [f.numerator, f.denominator]
            return None
        label_vals = {}
        for name, (kind, t) in leaves.items():
            if kind in ('real',):
                res[name] = {'kind': kind, 'value': num(t)}
            elif kind in ('int', 'choice'):
                res[name] = {'kind': kind, 'value': num(t)}
            elif kind == 'complex':
                res[name] = {'kind': kind, 'value': [num(t[0]), num(t[1])]}
            elif kind == 'bool':
                res[name] = {'kind': kind, 'value': bool(z3.is_true(model.eval(t, model_completion=True)))}
            elif kind == 'label':
                label_vals[name] = num(t)
            elif kind == 'custom':
                res[name] = {'kind': 'custom', 'value': t(model)}
            elif kind == 'list':
                n = num(t['len'])
                n = 0 if n is None else max(0, min(int(n), 8))
                res[name + '.len'] = {'kind': 'int', 'value': n}
                for i in range(n):
                    for sub, (k2, f) in t['subs'].items():
                        key = f'{name}[{i}].{sub}'
                        if k2 in ('real', 'int', 'choice'):
                            res[key] = {'kind': k2, 'value': num(f(z3.IntVal(i)))}
                        elif k2 == 'complex':
                            res[key] = {'kind': 'complex', 'value': [num(f[0](z3.IntVal(i))), num(f[1](z3.IntVal(i)))]}
                        elif k2 == 'bool':
                            res[key] = {'kind': 'bool', 'value': bool(z3.is_true(model.eval(f(z3.IntVal(i)), model_completion=True)))}
                        elif k2 == 'label':
                            label_vals[key] = num(f(z3.IntVal(i)))
        if label_vals:
            consts = {s: num(k) for s, k in CTX.strings.items()}
            names = assign_labels(label_vals, consts)
            for name, s in names.items():
                res[name] = {'kind': 'label', 'value': s}
        return res


def _frac(v):
    from fractions import Fraction
    if v is None:
        return None
    if isinstance(v, int):
        return Fraction(v)
    return Fraction(v[0], v[1])


def assign_labels(label_vals, consts):
    """Turn model values of label leaves into strings that respect the order with the concrete strings in play."""
    cvals = {s: _frac(v) for s, v in consts.items() if v is not None}
    by_val = {}
    for s, v in cvals.items():
        by_val.setdefault(v, s)
    out = {}
    free = sorted({_frac(v) for v in label_vals.values() if v is not None and _frac(v) not in by_val})
    sorted_consts = sorted(cvals.items(), key=lambda kv: kv[1])
    gen = {}
    for rank, v in enumerate(free):
        lo = [s for s, cv in sorted_consts if cv < v]
        hi = [s for s, cv in sorted_consts if cv > v]
        lo_s = max(lo) if lo else ''
        # candidate strictly above lo_s and below the next constant; keep order among free values by rank
        cand = lo_s + '~' + chr(ord('a') + rank) if lo else chr(ord('!')) + chr(ord('a') + rank)
        if hi and not cand < min(hi):
            cand = lo_s + '\x01' + chr(ord('a') + rank)
        gen[v] = cand
    for name, v in label_vals.items():
        fv = _frac(v)
        if fv is None:
            out[name] = name
        elif fv in by_val:
            out[name] = by_val[fv]
        else:
            out[name] = gen[fv]
    return out


def force_plain(v):
    v = force(v)
    return v


def snapshot(v, memo=None):
    if memo is None:
        memo = {}
    if id(v) in memo:
        return memo[id(v)]
    if isinstance(v, dict):
        r = {k: snapshot(x, memo) for k, x in v.items()}
    elif isinstance(v, list):
        r = [snapshot(x, memo) for x in v]
    elif isinstance(v, tuple):
        r = tuple(snapshot(x, memo) for x in v)
    elif isinstance(v, IDict):
        r = IDict()
        r.items_ = [(k, snapshot(x, memo)) for k, x in v.items_]
    elif isinstance(v, ISet):
        r = ISet()
        r.elems = list(v.elems)
    elif isinstance(v, Inst):
        r = Inst(v.cls, {k: snapshot(x, memo) for k, x in v.attrs.items()})
    else:
        from .arrays import AArr
        from .seq import AL
        if isinstance(v, AArr):
            r = v.copy()
        elif isinstance(v, AL):
            import copy as _copy
            r = _copy.copy(v)      # element mutation is tracked by the frozen-element check; this detects in-place list operations
        else:
            r = v
    memo[id(v)] = r
    return r


def same_state(a, b):
    """z3 Bool: the (possibly mutated) structure b equals the snapshot a."""
    terms = []

    def walk(x, y):
        if isinstance(x, dict):
            if not isinstance(y, dict) or list(x) != list(y):
                return False
            return all(walk(x[k], y[k]) for k in x)
        if isinstance(x, (list, tuple)):
            if type(x) != type(y) or len(x) != len(y):
                return False
            return all(walk(p, q) for p, q in zip(x, y))
        if isinstance(x, IDict):
            if not isinstance(y, IDict) or len(x) != len(y):
                return False
            for (k1, v1), (k2, v2) in zip(x.items_, y.items_):
                if not walk(k1, k2) or not walk(v1, v2):
                    return False
            return True
        if isinstance(x, ISet):
            if not isinstance(y, ISet) or len(x) != len(y):
                return False
            return all(walk(p, q) for p, q in zip(x.elems, y.elems))
        if isinstance(x, Inst):
            if not isinstance(y, Inst) or x.cls is not y.cls or set(x.attrs) != set(y.attrs):
                return False
            return all(walk(x.attrs[k], y.attrs[k]) for k in x.attrs)
        from .arrays import AArr
        if isinstance(x, AArr):
            if not isinstance(y, AArr) or x.shape != y.shape:
                return False
            return all(walk(p, q) for p, q in zip(x.data, y.data))
        if x is y:
            return True
        from .seq import AL
        if isinstance(x, AL) and isinstance(y, AL):
            return x.n is y.n and x.present is y.present and x.value is y.value and x.kvar is y.kvar
        if isinstance(x, (AList, Opaque, FunctionVal, ClassVal, Builtin, ModuleVal)) or isinstance(y, (AList, Opaque, FunctionVal, ClassVal, Builtin, ModuleVal)):
            return x is y
        try:
            e = eq_value(x, y)
        except OutOfSubset:
            return x is y
        if isinstance(e, bool):
            return e
        terms.append(e.t)
        return True
    ok = walk(a, b)
    if not ok:
        return z3.BoolVal(False)
    return z3.simplify(z3.And(*terms)) if terms else z3.BoolVal(True)
