"""CPython cross-check of the encoder and native replay of counter-models (DESIGN 3.5, 3.7).

For concrete leaf values x: the unique symbolic path whose condition evaluates to true under the real interpretation
of cos/sin/pi/... must produce, numerically, the outcome that the real function produces under CPython.
"""
from __future__ import annotations
import json
import math
import os
import random
import subprocess
import tempfile
from fractions import Fraction
import z3
from .values import (CTX, SNum, SBool, SLabel, SChoice, ClassVal, Inst, FunctionVal, Builtin, Opaque, IDict, ISet, force)
from .zeval import zeval, Unevaluable, Ambiguous
from .specsym import RaisedVal
from . import ops

_NO_RESULT = object()
NATIVE_PY = os.environ.get('VERIF_NATIVE_PYTHON', '/venv/bin/python')


def run_native(jobs, repo_src, verif_dir, timeout=600):
    with tempfile.TemporaryDirectory(prefix='pyvc-') as d:
        jf, of = os.path.join(d, 'jobs.json'), os.path.join(d, 'out.json')
        json.dump(jobs, open(jf, 'w'))
        env = dict(os.environ)
        env['PYTHONPATH'] = repo_src + os.pathsep + verif_dir
        env['MPLBACKEND'] = 'Agg'
        p = subprocess.run([NATIVE_PY, '-m', 'pyvc.replay', jf, of], env=env, capture_output=True, text=True, timeout=timeout, cwd=verif_dir)
        if p.returncode != 0 or not os.path.exists(of):
            raise RuntimeError('native replay failed: ' + p.stderr[-2000:])
        out = json.load(open(of))
    if not os.path.realpath(out['package_file']).startswith(os.path.realpath(repo_src)):
        raise RuntimeError(f'replay imported {out["package_file"]}, not the working tree {repo_src}')
    return out['results']


# ------------------------------------------------------------------------------------------------

def random_leaves(leaves, rng):
    pool = ['0', '1', '10', '2', 'a', 'B', 'n1', 'x']
    vals = {}
    for name, (kind, t) in leaves.items():
        if kind == 'real':
            r = rng.random()
            if r < 0.12:
                v = Fraction(0)
            elif r < 0.35:
                v = Fraction(rng.randint(-4, 4))
            else:
                v = Fraction(rng.randint(-4000, 4000), rng.choice([1, 3, 7, 10, 100, 1000]))
            vals[name] = {'kind': 'real', 'value': [v.numerator, v.denominator]}
        elif kind == 'int':
            vals[name] = {'kind': 'int', 'value': rng.randint(-3, 12)}
        elif kind == 'choice':
            vals[name] = {'kind': 'choice', 'value': rng.randint(0, 40)}
        elif kind == 'complex':
            a = Fraction(rng.randint(-40, 40), rng.choice([1, 4, 10]))
            b = Fraction(rng.randint(-40, 40), rng.choice([1, 4, 10])) if rng.random() < 0.8 else Fraction(0)
            vals[name] = {'kind': 'complex', 'value': [[a.numerator, a.denominator], [b.numerator, b.denominator]]}
        elif kind == 'bool':
            vals[name] = {'kind': 'bool', 'value': rng.random() < 0.5}
        elif kind == 'label':
            vals[name] = {'kind': 'label', 'value': rng.choice(pool + [name])}
        else:
            return None
    return vals


def env_of(leaf_vals, leaves):
    """z3-constant environment for zeval from JSON leaf values."""
    def num(x):
        if isinstance(x, list):
            return float(Fraction(x[0], x[1]))
        return x
    strings = set(CTX.strings)
    for name, d in leaf_vals.items():
        if d['kind'] == 'label':
            strings.add(d['value'])
    rank = {s: float(i) for i, s in enumerate(sorted(strings))}
    env = {}
    for s in CTX.strings:
        env['str:' + s] = rank[s]
    for name, d in leaf_vals.items():
        k = d['kind']
        if k == 'real':
            env[name] = num(d['value'])
        elif k in ('int', 'choice'):
            env[name] = int(num(d['value']))
        elif k == 'complex':
            env[name + '.re'] = num(d['value'][0])
            env[name + '.im'] = num(d['value'][1])
        elif k == 'bool':
            env[name] = bool(d['value'])
        elif k == 'label':
            env['lbl:' + name] = rank[d['value']]
    env['__rank__'] = {v: k for k, v in rank.items()}
    return env


def sym_neutral(v, env, cache):
    v = force_numeric(v, env, cache)
    if v is None or isinstance(v, (bool, str)):
        return v
    if isinstance(v, SBool):
        return bool(zeval(v.t, env, cache))
    if isinstance(v, (int, float, complex, Fraction)):
        c = complex(v)
        return {'num': [_nf(c.real), _nf(c.imag)]}
    if isinstance(v, SNum):
        if v.tag is not None:
            tag = zeval(v.tag, env, cache)
            if tag == 1:
                return {'num': ['inf', 0.0]}
            if tag == 2:
                return {'num': ['nan', 0.0]}
        re = zeval(v.re, env, cache)
        im = zeval(v.im, env, cache) if v.im is not None else 0.0
        return {'num': [float(re), float(im)]}
    if isinstance(v, SLabel):
        r = zeval(v.t, env, cache)
        return env['__rank__'].get(float(r), f'<rank {r}>')
    if isinstance(v, RaisedVal):
        return {'raised': [c.name for c in v.exc.cls.mro]}
    if isinstance(v, Inst):
        if ops.is_dataclass(v.cls):
            return {'obj': v.cls.name, 'fields': {f['name']: sym_neutral(v.attrs[f['name']], env, cache) for f in ops.dataclass_fields(v.cls) if f['name'] in v.attrs}}
        return {'other': v.cls.name}
    if isinstance(v, (list, tuple)):
        return {'seq': [sym_neutral(x, env, cache) for x in v]}
    if isinstance(v, IDict):
        return {'dict': [[sym_neutral(k, env, cache), sym_neutral(x, env, cache)] for k, x in v.items()]}
    if isinstance(v, ISet):
        return {'set': sorted((sym_neutral(x, env, cache) for x in v.elems), key=repr)}
    from .arrays import AArr
    if isinstance(v, AArr):
        def nest(a):
            if a.ndim <= 1:
                return [sym_neutral(x, env, cache) for x in a.data]
            return [nest(r) for r in a.iterate()]
        if v.ndim == 0:
            return sym_neutral(v.data[0], env, cache)
        return {'array': nest(v), 'shape': list(v.shape)}
    if isinstance(v, ClassVal):
        return {'class': v.name}
    if isinstance(v, (FunctionVal, Builtin)):
        return {'callable': getattr(v, 'name', '?')}
    raise Unevaluable(type(v).__name__)


def force_numeric(v, env, cache):
    while isinstance(v, SChoice):
        for c, x in v.alts:
            if zeval(c, env, cache):
                v = x
                break
        else:
            raise Unevaluable('no alternative of a choice holds')
    return v


def _nf(x):
    if math.isnan(x):
        return 'nan'
    if math.isinf(x):
        return 'inf' if x > 0 else '-inf'
    return x


def neutral_equal(a, b, tol=1e-7):
    if isinstance(a, dict) and isinstance(b, dict):
        if 'num' in a and 'num' in b:
            for x, y in zip(a['num'], b['num']):
                if isinstance(x, str) or isinstance(y, str):
                    xs, ys = str(x).lstrip('-'), str(y).lstrip('-')
                    if xs != ys:          # the sign of infinities is not tracked by the model
                        return False
                elif abs(x - y) > 1e-9 + tol * max(abs(x), abs(y)):
                    return False
            return True
        if 'raised' in a and 'raised' in b:
            return a['raised'][0] == b['raised'][0]
        if 'dict' in a and 'dict' in b:
            # Python dict equality ignores insertion order
            if len(a['dict']) != len(b['dict']):
                return False
            rest = list(b['dict'])
            for k, v in a['dict']:
                for j, (k2, v2) in enumerate(rest):
                    if neutral_equal(k, k2, tol) and neutral_equal(v, v2, tol):
                        del rest[j]
                        break
                else:
                    return False
            return True
        if set(a) != set(b):
            # a bool result from numpy may arrive as num
            return False
        return all(neutral_equal(a[k], b[k], tol) for k in a)
    if isinstance(a, list) and isinstance(b, list):
        return len(a) == len(b) and all(neutral_equal(x, y, tol) for x, y in zip(a, b))
    if isinstance(a, bool) and isinstance(b, dict) and 'num' in b:
        return float(a) == b['num'][0]
    if isinstance(b, bool) and isinstance(a, dict) and 'num' in a:
        return float(b) == a['num'][0]
    if isinstance(a, (int, float)) and isinstance(b, (int, float)) and not isinstance(a, bool) and not isinstance(b, bool):
        return abs(a - b) <= 1e-9 + tol * max(abs(a), abs(b))
    return a == b


def crosscheck(contract, recs, repo_src, verif_dir, witness=None, n=8, seed=0):
    """-> dict(samples, compared, agreed, skipped, disagreements[])"""
    rng = random.Random(seed)
    if not recs:
        return {'samples': 0, 'compared': 0, 'agreed': 0, 'disagreements': []}
    leaves = recs[0][1].leaves
    cands = []      # the solver's own witness is not used: its values are often extreme (1/2^22 ...) and provoke round-off artefacts
    tries = 0
    while len(cands) < n * 6 and tries < n * 40:
        tries += 1
        lv = random_leaves(leaves, rng)
        if lv is None:
            break
        cands.append(lv)
    chosen = []
    for lv in cands:
        if any(d.get('value') is None for d in lv.values()):
            continue
        try:
            env = env_of(lv, leaves)
        except Exception:
            continue
        match = None
        try:
            for pi, (conds, rec) in enumerate(recs):
                cache = {}
                if all(zeval(c, env, cache) for c in conds):
                    match = (pi, rec, env, cache)
                    break
        except (Unevaluable, Ambiguous, ZeroDivisionError, OverflowError, ValueError):
            continue
        if match is None:
            continue
        try:
            sym = sym_neutral(match[1].result, env, match[3])
        except (Unevaluable, Ambiguous, ZeroDivisionError, OverflowError, ValueError):
            sym = _NO_RESULT        # the result itself has no numeric rendering (abstract calls, opaque values): compare the clauses only
        clause_vals = {}
        for k, gterm in match[1].clauses.items():
            try:
                clause_vals[k] = bool(zeval(gterm, env, match[3]))
            except (Unevaluable, Ambiguous, ZeroDivisionError, OverflowError, ValueError):
                pass
        chosen.append((lv, match[0], sym, clause_vals))
        if len(chosen) >= n:
            break
    res = {'samples': len(chosen), 'compared': 0, 'agreed': 0, 'disagreements': [], 'candidates': len(cands)}
    if not chosen:
        return res
    jobs = [{'sidecar': contract['module'], 'contract': contract['name'], 'leaves': lv} for lv, _, _, _ in chosen]
    outs = run_native(jobs, repo_src, verif_dir)
    res['clauses_compared'] = 0
    for (lv, pi, sym, clause_vals), nat in zip(chosen, outs):
        if 'error' in nat:
            res['disagreements'].append({'leaves': lv, 'native_error': nat['error']})
            continue
        if not nat.get('pre'):
            # the symbolic side found a path, i.e. believed the precondition to hold; natively it is evaluated in floating point
            # with tolerances (e.g. `nonsingular` refuses ill-conditioned matrices), so isolated mismatches are only counted
            res['pre_mismatch'] = res.get('pre_mismatch', 0) + 1
            res.setdefault('pre_mismatch_samples', []).append({'leaves': lv, 'pre_error': nat.get('pre_error')})
            continue
        res['compared'] += 1
        if nat.get('failed'):
            # the run-time contract fails on the REAL code for this input: a confirmed violation, whatever the symbolic side says
            res.setdefault('native_failures', []).append({'leaves': lv, 'failed': nat['failed'], 'outcome': nat.get('outcome'), 'exception': nat.get('exception')})
            continue
        bad_clauses = {k: (v, nat['clauses'][k]) for k, v in clause_vals.items() if k in nat.get('clauses', {}) and v != nat['clauses'][k]}
        if contract['meta'].get('set_order_dependent_result'):
            bad_clauses = {}       # CPython's set order is a third, unrelated order: a difference is not an encoder error
        res['clauses_compared'] += len(clause_vals)
        if sym is _NO_RESULT and not clause_vals:
            res['compared'] -= 1
            continue
        if (sym is _NO_RESULT or contract['meta'].get('set_order_dependent_result') or neutral_equal(sym, nat['outcome'])) and not bad_clauses:
            res['agreed'] += 1
        elif bad_clauses:
            res['disagreements'].append({'leaves': lv, 'path': pi, 'clauses (symbolic, native)': bad_clauses})
        else:
            res['disagreements'].append({'leaves': lv, 'path': pi, 'symbolic': sym, 'native': nat['outcome']})
    if res.get('pre_mismatch', 0) > max(1, len(chosen) // 2):
        res['disagreements'].append({'note': 'the precondition holds symbolically but not natively on most samples', 'samples': res['pre_mismatch_samples'][:2]})
    return res
