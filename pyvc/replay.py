"""Concrete side: run sidecar contracts against the *real* code under CPython.

Usage:  PYTHONPATH=<repo>/src:<verif> /venv/bin/python -m pyvc.replay jobs.json out.json

A job is {"sidecar": "contracts.x", "contract": "name", "leaves": {...}} or, for a random search,
{"sidecar":..., "contract":..., "random": N, "seed": S}.  The answer carries, per job, whether the precondition
held, the outcome in a neutral JSON form, the value of every contract clause evaluated at run time, and the frame
check (deep comparison of the inputs before/after).
"""
from __future__ import annotations
import copy
import dataclasses
import importlib
import json
import math
import random
import sys
import traceback
from fractions import Fraction

from . import spec


def leaf_value(d):
    k, v = d['kind'], d['value']

    def num(x):
        if x is None:
            return 0.0
        if isinstance(x, list):
            return float(Fraction(x[0], x[1]))
        return x
    if k == 'real':
        return float(num(v))
    if k in ('int', 'choice'):
        return int(num(v))
    if k == 'complex':
        return complex(float(num(v[0])), float(num(v[1])))
    if k == 'bool':
        return bool(v)
    if k == 'label':
        return str(v)
    return v


def neutral(x, depth=0):
    """JSON-able, implementation-neutral rendering of a result."""
    try:
        import numpy as np
    except ImportError:
        np = None
    if depth > 12:
        return '<deep>'
    if x is None or isinstance(x, (bool, str)):
        return x
    if np is not None and isinstance(x, np.generic):
        x = x.item()
    if isinstance(x, (int, float, complex)):
        c = complex(x)
        def f(v):
            if math.isnan(v):
                return 'nan'
            if math.isinf(v):
                return 'inf' if v > 0 else '-inf'
            return v
        return {'num': [f(c.real), f(c.imag)]}
    if isinstance(x, spec.Raised):
        return {'raised': [c.__name__ for c in type(x.exc).__mro__ if c is not object]}
    if np is not None and isinstance(x, np.ndarray) and x.ndim == 0:
        return neutral(x.item(), depth + 1)
    if np is not None and isinstance(x, np.ndarray):
        def nest(a):
            if a.ndim <= 1:
                return [neutral(v, depth + 1) for v in a.tolist()]
            return [nest(r) for r in a]
        return {'array': nest(x), 'shape': list(x.shape)}
    if isinstance(x, (list, tuple)):
        return {'seq': [neutral(v, depth + 1) for v in x]}
    if isinstance(x, (set, frozenset)):
        return {'set': sorted((neutral(v, depth + 1) for v in x), key=repr)}
    if isinstance(x, dict):
        return {'dict': [[neutral(k, depth + 1), neutral(v, depth + 1)] for k, v in x.items()]}
    if dataclasses.is_dataclass(x) and not isinstance(x, type):
        return {'obj': type(x).__name__, 'fields': {f.name: neutral(getattr(x, f.name), depth + 1) for f in dataclasses.fields(x) if hasattr(x, f.name)}}
    if isinstance(x, type):
        return {'class': x.__name__}
    if callable(x):
        return {'callable': getattr(x, '__name__', '?')}
    return {'other': type(x).__name__}


def resolve(dotted):
    parts = dotted.split('.')
    for k in range(len(parts), 0, -1):
        try:
            obj = importlib.import_module('.'.join(parts[:k]))
        except ImportError:
            continue
        for p in parts[k:]:
            obj = obj.__dict__[p] if isinstance(obj, type) and p in obj.__dict__ else getattr(obj, p)
        return obj
    raise ImportError(dotted)


def find_contract(sidecar, name):
    importlib.import_module(sidecar)
    for c in spec.REGISTRY:
        if c.cls.__module__ == sidecar and c.name == name:
            return c
    raise KeyError(f'{sidecar}.{name}')


def deep_equal(a, b):
    try:
        import numpy as np
        if isinstance(a, np.ndarray) or isinstance(b, np.ndarray):
            return isinstance(a, np.ndarray) and isinstance(b, np.ndarray) and a.shape == b.shape and bool(np.all((a == b) | ((a != a) & (b != b))))
    except ImportError:
        pass
    if type(a) != type(b):
        return False
    if isinstance(a, dict):
        return list(a.keys()) == list(b.keys()) and all(deep_equal(a[k], b[k]) for k in a)
    if isinstance(a, (list, tuple)):
        return len(a) == len(b) and all(deep_equal(x, y) for x, y in zip(a, b))
    if dataclasses.is_dataclass(a) and not isinstance(a, type):
        return all(deep_equal(getattr(a, f.name, None), getattr(b, f.name, None)) for f in dataclasses.fields(a))
    if isinstance(a, float) and a != a:
        return b != b
    try:
        return bool(a == b)
    except Exception:
        return a is b


def run_once(c, gen):
    res = {'pre': None, 'outcome': None, 'clauses': {}, 'frame': None, 'failed': [], 'leaves_used': None}
    inputs_fn = c.fn('inputs')
    inputs = inputs_fn(gen)
    res['leaves_used'] = {k: (v if not isinstance(v, complex) else [v.real, v.imag]) for k, v in gen.used.items()}
    req = c.fn('requires')
    if req is not None:
        try:
            pre = bool(req(**inputs))
        except Exception as e:      # a precondition that cannot be evaluated does not hold
            pre = False
            res['pre_error'] = repr(e)
        res['pre'] = pre
        if not pre:
            return res
    else:
        res['pre'] = True
    try:
        before = copy.deepcopy(inputs)
    except Exception:
        before = None
    target = resolve(c.target) if c.target else None
    call = c.fn('call')
    try:
        result = call(target, **inputs) if call is not None else target(**inputs)
        kind = 'ret'
    except Exception as e:       # noqa: the outcome of the real code, whatever it is
        result = spec.Raised(e)
        kind = 'exc'
        res['exception'] = ''.join(traceback.format_exception_only(type(e), e)).strip()
    res['kind'] = kind
    res['outcome'] = neutral(result)
    total = bool(getattr(c.cls, 'total', False))
    if getattr(c.cls, 'frame', True) is not False and before is not None:
        ok = deep_equal(before, inputs)
        res['clauses']['frame'] = ok
    declared = {}
    if c.fn('raises') is not None:
        declared = c.fn('raises')(**inputs)
    if not total:
        if kind == 'ret':
            if declared:
                res['clauses']['raises.complete'] = not any(bool(v) for v in declared.values())
        else:
            res['clauses']['raises.sound'] = any(bool(v) and isinstance(result.exc, E) for E, v in declared.items())
    ens = c.fn('ensures')
    if ens is not None and (kind == 'ret' or total):
        try:
            cl = ens(result=result, **inputs)
        except Exception as e:
            cl = {'<contract evaluation>': False}
            res['ensures_error'] = ''.join(traceback.format_exception_only(type(e), e)).strip()
        if not isinstance(cl, dict):
            cl = {'': cl}
        for k, v in cl.items():
            res['clauses']['post' + ('.' + k if k else '')] = bool(v)
    res['failed'] = sorted(k for k, v in res['clauses'].items() if not v)
    return res


def run_job(job):
    c = find_contract(job['sidecar'], job['contract'])
    if 'random' in job:
        rng = random.Random(job.get('seed', 0))
        tried = held = 0
        fails = []
        for _ in range(int(job['random'])):
            gen = spec.ConcreteGen({}, rng, moderate=bool(job.get('moderate')))
            tried += 1
            try:
                r = run_once(c, gen)
            except Exception as e:
                fails.append({'error': traceback.format_exc(limit=6)})
                continue
            if not r['pre']:
                continue
            held += 1
            if r['failed']:
                fails.append(r)
                if len(fails) >= int(job.get('max_fail', 3)):
                    break
        return {'tried': tried, 'pre_held': held, 'failures': fails}
    values = {k: leaf_value(v) for k, v in job.get('leaves', {}).items()}
    gen = spec.ConcreteGen(values, None)
    return run_once(c, gen)


def main(argv):
    jobs = json.load(open(argv[1]))
    import CircuitCalculator
    origin = CircuitCalculator.__file__
    out = {'package_file': origin, 'results': []}
    for job in jobs:
        try:
            out['results'].append(run_job(job))
        except Exception:
            out['results'].append({'error': traceback.format_exc(limit=10)})
    json.dump(out, open(argv[2], 'w'), indent=1, default=str)


if __name__ == '__main__':
    main(sys.argv)
