"""Contract vocabulary - the *symbolic* reading (counterpart of pyvc.spec)."""
from __future__ import annotations
import z3
from .values import (CTX, SNum, SBool, SLabel, SChoice, Builtin, Opaque, OutOfSubset, ClassVal, Inst, IDict, force, lift, zbool)
from . import ops
from .ops import eq_value, truth
from .builtins_ import StubModule, _B, interp_ref
from .abstract import AList

UNIVERSE = [None]


def _contract(args, kw):
    target = args[0]
    props = kw.pop('props', ())
    meta = dict(kw)

    def deco(a, k):
        cls = a[0]
        UNIVERSE[0].contracts.append({'target': target, 'cls': cls, 'props': list(interp_ref[0].iterate(props)), 'meta': meta,
                                      'name': meta.get('name', cls.name), 'module': cls.module.name})
        return cls
    return Builtin('contract()', deco)


def _lemma(args, kw):
    props = kw.pop('props', ())
    meta = dict(kw)

    def deco(a, k):
        cls = a[0]
        UNIVERSE[0].contracts.append({'target': None, 'cls': cls, 'props': list(interp_ref[0].iterate(props)), 'meta': meta,
                                      'name': meta.get('name', cls.name), 'module': cls.module.name})
        return cls
    return Builtin('lemma()', deco)


def s_eq(a, b):
    a, b = force(a), force(b)
    from .arrays import AArr
    if isinstance(a, AArr) or isinstance(b, AArr):
        from .arrays import as_array
        a, b = as_array(a), as_array(b)
        if a.shape != b.shape:
            return False
        return ops.s_and(*[s_eq(x, y) for x, y in zip(a.data, b.data)])
    if isinstance(a, (list, tuple)) and isinstance(b, (list, tuple)):
        if len(a) != len(b):
            return False
        return ops.s_and(*[s_eq(x, y) for x, y in zip(a, b)])
    return eq_value(a, b)


def s_implies(a, b):
    a = force(a)
    from .values import FunctionVal, BoundMethod
    if isinstance(force(b), (FunctionVal, BoundMethod)):
        if isinstance(a, bool):
            return _as_bool(merged_call(b, [], exc_as_false=True)) if a else True
        return ops.s_or(ops.s_not(a), _as_bool(merged_call(b, [], extra=[zbool(a)], exc_as_false=True)))
    b = force(b)
    if isinstance(a, bool):
        return b if a else True
    if not isinstance(b, (bool, SBool)):
        b = truth(b)
    return ops.s_or(ops.s_not(a), b)


def s_iff(a, b):
    a, b = force(a), force(b)
    if isinstance(a, bool) and isinstance(b, bool):
        return a == b
    return SBool(z3.simplify(zbool(a) == zbool(b)))


def _as_bool(v):
    v = force(v)
    if isinstance(v, (bool, SBool)):
        return v
    return truth(v)


def merged_call(fn, args, extra=(), exc_as_false=False):
    """Call an interpreted function in a nested exploration and merge the outcomes into one value (no outer fork)."""
    from .values import explore, PyRaise
    I = interp_ref[0]
    outer = CTX.path
    outs = explore(lambda: I.call(fn, list(args), {}), base=outer.all_conds() + list(extra), want_local_conds=True)
    alts = []
    for o in outs:
        c = z3.And(*o.conds) if o.conds else z3.BoolVal(True)
        if o.kind == 'exc':
            if exc_as_false:
                alts.append((c, False))     # an undefined contract expression does not hold
                continue
            raise OutOfSubset(f'contract expression raises {o.value.cls.name} {o.value.attrs.get("args")}')
        alts.append((c, _as_bool(o.value) if exc_as_false and not isinstance(force(o.value), (bool, SBool)) else o.value))
    if not alts:
        if extra:
            return True      # the guard is contradictory under the enclosing path
        from .values import Infeasible
        raise Infeasible()
    return ops.merge(alts)


def s_forall(xs, pred):
    xs = force(xs)
    if isinstance(xs, AList):
        return xs.forall(pred)
    from .seq import ASet, ADict
    if isinstance(xs, ASet):
        return xs.forall(pred)
    if isinstance(xs, ADict):
        return xs.keys_al().forall(pred)
    I = interp_ref[0]
    return ops.s_and(*[_as_bool(merged_call(pred, [x], exc_as_false=True)) for x in I.iterate(xs)])


def s_exists(xs, pred):
    xs = force(xs)
    if isinstance(xs, AList):
        return xs.exists(pred)
    from .seq import ASet, ADict
    if isinstance(xs, ASet):
        return xs.exists(pred)
    if isinstance(xs, ADict):
        return xs.keys_al().exists(pred)
    I = interp_ref[0]
    return ops.s_or(*[_as_bool(merged_call(pred, [x], exc_as_false=True)) for x in I.iterate(xs)])


def s_balanced(terms):
    I = interp_ref[0]
    acc = 0
    for t in I.iterate(terms):
        acc = I.binop('+', acc, t)
    return eq_value(acc, 0)


def s_indices(xs):
    from . import seq
    return seq.indices(xs)


def s_total(xs, term):
    from . import seq
    xs = force(xs)
    if isinstance(xs, (AList, seq.ASet, seq.ADict)):
        al = seq.as_al(xs)
        return seq.bigsum(al.mapfilter(lambda x: interp_ref[0].call(term, [x], {})))
    I = interp_ref[0]
    acc = 0
    for x in I.iterate(xs):
        acc = I.binop('+', acc, I.call(term, [x], {}))
    return acc


def s_ite(c, a, b):
    c = force(c)
    if isinstance(c, bool):
        return a if c else b
    return ops.merge([(zbool(c), a), (z3.Not(zbool(c)), b)])


def s_nonsingular(A):
    from .arrays import det, as_array
    A = as_array(A)
    if A.shape[0] == 0:
        return True
    return ops.s_not(eq_value(det(A), 0))


def s_is_real(x):
    x = ops.norm_num(force(x))
    if isinstance(x, SNum):
        if x.im is None:
            return True
        return ops._sb(x.im == 0)
    if isinstance(x, complex):
        return x.imag == 0
    return True


def s_ge(a, b):
    return ops.compare('>=', ops.real_part(a) if _maybe_complex(a) else a, ops.real_part(b) if _maybe_complex(b) else b)


def _maybe_complex(x):
    x = force(x)
    return isinstance(x, complex) or (isinstance(x, SNum) and x.im is not None)


class RaisedVal:
    def __init__(self, exc):
        self.exc = exc

    def __repr__(self):
        return f'Raised({self.exc.cls.name})'

    def pyvc_attr(self, I, name):
        from .ops import raise_py
        raise_py('AttributeError', f'the call raised {self.exc.cls.name}; it has no result attribute {name}')

    def pyvc_getitem(self, I, idx):
        from .ops import raise_py
        raise_py('TypeError', f'the call raised {self.exc.cls.name}; the result is not subscriptable')


def s_raised(result, *classes):
    result = force(result)
    if not isinstance(result, RaisedVal):
        return False
    if not classes:
        return True
    return any(isinstance(c, ClassVal) and result.exc.cls.issubclass(c) for c in classes)


_SPEC = None


def spec_module():
    global _SPEC
    if _SPEC is None:
        _SPEC = StubModule('pyvc.spec', {
            'contract': Builtin('contract', _contract), 'lemma': Builtin('lemma', _lemma),
            'eq': _B('eq', s_eq), 'implies': _B('implies', s_implies), 'iff': _B('iff', s_iff),
            'forall': _B('forall', s_forall), 'exists': _B('exists', s_exists), 'ite': _B('ite', s_ite),
            'indices': _B('indices', s_indices), 'total': _B('total', s_total), 'balanced': _B('balanced', s_balanced),
            'is_real': _B('is_real', s_is_real), 'ge': _B('ge', s_ge), 'le': _B('le', lambda a, b: s_ge(b, a)),
            'json_file': _B('json_file', lambda doc: __import__('pyvc.builtins_', fromlist=['VFile']).VFile(__import__('pyvc.builtins_', fromlist=['_text_dump'])._text_dump('json', doc))),
            'raised': Builtin('raised', lambda a, k: s_raised(*a)), 'nonsingular': _B('nonsingular', s_nonsingular),
        }, opaque=False)
    return _SPEC


# ------------------------------------------------------------------------------------------------
# symbolic input generator


class _Leaves(dict):
    def __setitem__(self, name, v):
        if name in self and self[name][0] != v[0]:
            raise OutOfSubset(f'contract error: leaf name {name!r} is used for a {self[name][0]} and a {v[0]}')
        super().__setitem__(name, v)


class SymGen:
    def __init__(self):
        self.leaves = _Leaves()         # name -> (kind, z3 terms / info)
        self.assumptions = []

    def pyvc_attr(self, I, name):
        m = getattr(self, 'g_' + name, None)
        if m is None:
            from .ops import raise_py
            raise_py('AttributeError', 'gen.' + name)
        return Builtin('gen.' + name, lambda args, kw: m(*args, **kw))

    def g_real(self, name, lo=None, hi=None):
        t = z3.Real(name)
        self.leaves[name] = ('real', t)
        if lo is not None:
            CTX.path.assume(t >= lift(lo).rez())
        if hi is not None:
            CTX.path.assume(t <= lift(hi).rez())
        return SNum(t)

    def g_pos(self, name):
        t = z3.Real(name)
        self.leaves[name] = ('real', t)
        CTX.path.assume(t > 0)
        return SNum(t)

    def g_int(self, name, lo=None, hi=None):
        t = z3.Int(name)
        self.leaves[name] = ('int', t)
        if lo is not None:
            CTX.path.assume(t >= lo)
        if hi is not None:
            CTX.path.assume(t <= hi)
        return SNum(t)

    def g_complex(self, name):
        re, im = z3.Real(name + '.re'), z3.Real(name + '.im')
        self.leaves[name] = ('complex', (re, im))
        return SNum(re, im)

    def g_bool(self, name):
        t = z3.Bool(name)
        self.leaves[name] = ('bool', t)
        return SBool(t)

    def g_label(self, name):
        t = z3.Real('lbl:' + name)
        self.leaves[name] = ('label', t)
        return SLabel(t)

    def g_choice(self, name, options):
        options = interp_ref[0].iterate(options)
        t = z3.Int(name)
        self.leaves[name] = ('choice', t)
        CTX.path.assume(z3.And(t >= 0, t < len(options)))
        for i, o in enumerate(options[:-1]):
            if CTX.path.branch(t == i):
                return o
        return options[-1]

    def g_list(self, name, element, min_len=0, max_len=None):
        """Abstract list of symbolic length; `element(g_i)` is evaluated once on the generic index."""
        from . import seq
        n = z3.Int(name + '.len')
        CTX.path.assume(n >= min_len)
        k = seq.fresh_index('g')
        sub = IndexedSymGen(self, name, k)
        I = interp_ref[0]
        outs = seq.generic_eval(k, [k >= 0, k < n], lambda: I.call(element, [sub], {}))
        if any(kind == 'exc' for _, kind, _ in outs):
            raise OutOfSubset('list element generator raises')
        value = seq.merged([(c, v) for c, kind, v in outs])
        self.leaves[name] = ('list', {'len': n, 'subs': sub.subs, 'min': min_len})
        al = seq.AL(n, k, True, value, 'input ' + name)
        al.frozen_input = True
        return al


class IndexedSymGen:
    """Leaves of the generic element of an abstract list: uninterpreted functions of the index."""

    def __init__(self, outer, name, k):
        self.outer, self.name, self.k = outer, name, k
        self.subs = {}

    def pyvc_attr(self, I, name):
        m = getattr(self, 'g_' + name, None)
        if m is None:
            from .ops import raise_py
            raise_py('AttributeError', 'gen.' + name)
        return Builtin('gen.' + name, lambda args, kw: m(*args, **kw))

    def _fun(self, sub, kind, sort):
        f = z3.Function(f'{self.name}[].{sub}', z3.IntSort(), sort)
        self.subs[sub] = (kind, f)
        return f

    def g_real(self, sub, lo=None, hi=None):
        t = self._fun(sub, 'real', z3.RealSort())(self.k)
        if lo is not None:
            CTX.path.assume(t >= lift(lo).rez())
        if hi is not None:
            CTX.path.assume(t <= lift(hi).rez())
        return SNum(t)

    def g_pos(self, sub):
        t = self._fun(sub, 'real', z3.RealSort())(self.k)
        CTX.path.assume(t > 0)
        return SNum(t)

    def g_int(self, sub, lo=None, hi=None):
        t = self._fun(sub, 'int', z3.IntSort())(self.k)
        if lo is not None:
            CTX.path.assume(t >= lo)
        if hi is not None:
            CTX.path.assume(t <= hi)
        return SNum(t)

    def g_complex(self, sub):
        re = self._fun(sub + '.re', 'real', z3.RealSort())(self.k)
        im = self._fun(sub + '.im', 'real', z3.RealSort())(self.k)
        self.subs.pop(sub + '.re'), self.subs.pop(sub + '.im')
        self.subs[sub] = ('complex', (re.decl(), im.decl()))
        return SNum(re, im)

    def g_bool(self, sub):
        return SBool(self._fun(sub, 'bool', z3.BoolSort())(self.k))

    def g_label(self, sub):
        return SLabel(self._fun(sub, 'label', z3.RealSort())(self.k))

    def g_choice(self, sub, options):
        options = interp_ref[0].iterate(options)
        t = self._fun(sub, 'choice', z3.IntSort())(self.k)
        CTX.path.assume(z3.And(t >= 0, t < len(options)))
        for i, o in enumerate(options[:-1]):
            if CTX.path.branch(t == i):
                return o
        return options[-1]
