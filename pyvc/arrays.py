"""numpy stub: scalar functions and concrete-shape arrays with symbolic entries (DESIGN 3.2, 4).

Arrays here have a *concrete shape*; entries are interpreter values (numbers, SNum, SBool, or any object for
object arrays).  Entry-wise definitions follow the numpy reference and are assumed contracts on numpy.
`solve`/`inv` are modelled by their assumed contracts (DESIGN sec. 4), not computed.
"""
from __future__ import annotations
import math
import itertools
import z3
from .values import (CTX, SNum, SBool, Builtin, Opaque, OutOfSubset, IDict, Inst, force, lift, is_concrete_num, fresh_complex, fresh_real)
from . import ops
from .ops import truth, eq_value, arith, raise_py, norm_num


class AArr:
    """Concrete-shape array.  Basic indexing (integers and slices) yields a *view* that shares the buffer with its base,
    as in numpy (`Q[i][j] = v` writes into Q); advanced indexing and every arithmetic result are copies."""

    def __init__(self, shape, data, dtype=None, buf=None, pos=None):
        self.shape = tuple(shape)
        self.dtype = dtype
        if buf is None:
            self._buf = list(data)
            self._pos = None
        else:
            self._buf = buf
            self._pos = list(pos)
        n = 1
        for s in self.shape:
            n *= s
        assert n == (len(self._buf) if self._pos is None else len(self._pos)), (shape, n)

    @property
    def data(self):
        if self._pos is None:
            return self._buf
        return [self._buf[p] for p in self._pos]

    def _abs(self, k):
        return k if self._pos is None else self._pos[k]

    @property
    def ndim(self):
        return len(self.shape)

    def copy(self):
        return AArr(self.shape, list(self.data), self.dtype)

    def map(self, f):
        return AArr(self.shape, [f(x) for x in self.data], self.dtype)

    def iterate(self):
        if self.ndim == 0:
            raise_py('TypeError', 'iteration over a 0-d array')
        if self.ndim == 1:
            return list(self.data)
        step = len(self.data) // self.shape[0] if self.shape[0] else 0
        return [AArr(self.shape[1:], self.data[i * step:(i + 1) * step], self.dtype) for i in range(self.shape[0])]

    def tolist(self):
        if self.ndim <= 1:
            return list(self.data)
        return [r.tolist() for r in self.iterate()]

    # --- indexing -----------------------------------------------------------------------
    def _axis_index(self, I, idx, n):
        """-> ('int', i) | ('slice', [i...]) | ('list', [i...])"""
        idx = force(idx)
        if isinstance(idx, slice):
            s = slice(*(None if x is None else I._conc_index(x) for x in (idx.start, idx.stop, idx.step)))
            return ('slice', list(range(n))[s])
        if isinstance(idx, (list, tuple)):
            return ('list', [self._norm(I._conc_index(i), n) for i in idx])
        if isinstance(idx, AArr):
            if idx.data and all(isinstance(force(x), (bool, SBool)) for x in idx.data):
                sel = []
                for k, x in enumerate(idx.data):
                    if truth(x):
                        sel.append(k)
                return ('list', sel)
            return ('list', [self._norm(I._conc_index(i), n) for i in idx.data])
        return ('int', self._norm(I._conc_index(idx), n))

    @staticmethod
    def _norm(i, n):
        if i < -n or i >= n:
            raise_py('IndexError', f'index {i} is out of bounds for axis with size {n}')
        return i % n if n else i

    def _select(self, I, idx):
        """Return (result_shape, list of flat source positions)."""
        if not isinstance(idx, tuple):
            idx = (idx,)
        if len(idx) > self.ndim:
            raise_py('IndexError', 'too many indices for array')
        axes = [self._axis_index(I, ix, n) for ix, n in zip(idx, self.shape)]
        axes += [('slice', list(range(n))) for n in self.shape[len(idx):]]
        out_shape = tuple(len(a[1]) for a in axes if a[0] != 'int')
        self._last_basic = all(a[0] != 'list' for a in axes)
        choices = [[a[1]] if a[0] == 'int' else a[1] for a in axes]
        strides = []
        s = 1
        for n in reversed(self.shape):
            strides.insert(0, s)
            s *= n
        pos = [sum(i * st for i, st in zip(combo, strides)) for combo in itertools.product(*choices)]
        return out_shape, pos

    def getitem(self, I, idx):
        shape, pos = self._select(I, idx)
        if shape == ():
            return self.data[pos[0]]
        if self._last_basic:
            return AArr(shape, None, self.dtype, buf=self._buf, pos=[self._abs(p) for p in pos])
        d = self.data
        return AArr(shape, [d[p] for p in pos], self.dtype)

    def setitem(self, I, idx, v):
        m = force(idx)
        if isinstance(m, AArr) and m.shape == self.shape and m.data and all(isinstance(force(x), (bool, SBool)) for x in m.data):
            # boolean mask of the same shape: every element becomes ite(mask, value, old) - no path fork
            v = force(v)
            if isinstance(v, (AArr, list, tuple)):
                raise OutOfSubset('boolean-mask assignment of an array value')
            d = self.data
            for k, mk in enumerate(m.data):
                mk = force(mk)
                if isinstance(mk, bool):
                    if mk:
                        self._buf[self._abs(k)] = self._coerce(v)
                else:
                    self._buf[self._abs(k)] = ops.merge([(mk.t, self._coerce(v)), (z3.Not(mk.t), d[k])])
            return
        shape, pos = self._select(I, idx)
        v = force(v)
        if isinstance(v, AArr):
            if len(v.data) != len(pos):
                if len(v.data) == 1:
                    vals = [v.data[0]] * len(pos)
                else:
                    raise_py('ValueError', 'could not broadcast input array')
            else:
                vals = v.data
        elif isinstance(v, (list, tuple)):
            vals = list(v)
            if len(vals) != len(pos):
                raise_py('ValueError', 'could not broadcast input array')
        else:
            vals = [v] * len(pos)
        for p, x in zip(pos, vals):
            self._buf[self._abs(p)] = self._coerce(x)

    def _coerce(self, x):
        x = force(x)
        if self.dtype == 'real':
            x = norm_num(x)
            if isinstance(x, SNum) and x.im is not None:
                return ops.real_part(x)    # numpy discards the imaginary part (with a warning)
            if isinstance(x, complex):
                return x.real
        return x

    # --- attributes ---------------------------------------------------------------------
    def attr(self, I, name):
        if name == 'shape':
            return self.shape
        if name == 'ndim':
            return self.ndim
        if name == 'size':
            return len(self.data)
        if name == 'T':
            return self.transpose()
        if name == 'real':
            return self.map(ops.real_part)
        if name == 'imag':
            return self.map(ops.imag_part)
        table = {
            'any': lambda axis=None: self.any_(axis),
            'all': lambda axis=None: self.all_(axis),
            'conjugate': lambda: self.map(ops.conj), 'conj': lambda: self.map(ops.conj),
            'copy': self.copy, 'tolist': self.tolist,
            'transpose': self.transpose,
            'reshape': lambda *shape: reshape(self, shape[0] if len(shape) == 1 else shape),
            'sum': lambda axis=None: np_sum(self, axis),
            'flatten': lambda: AArr((len(self.data),), list(self.data), self.dtype),
            'dot': lambda o: matmul(I, self, o),
            'item': lambda: self.data[0],
            'diagonal': lambda: _diag(self),
        }
        if name in table:
            f = table[name]
            return Builtin('ndarray.' + name, lambda args, kw: f(*args, **kw))
        if name == 'dtype':
            return 'complex' if self.dtype != 'real' and self.dtype != 'int' else ('float' if self.dtype == 'real' else 'int')
        # numpy arrays have many more attributes than are modelled: an unmodelled one is outside the subset, not an AttributeError
        raise OutOfSubset(f'ndarray attribute {name} is not modelled')

    def transpose(self):
        if self.ndim < 2:
            return self.copy()
        if self.ndim != 2:
            raise OutOfSubset('transpose of >2-d array')
        r, c = self.shape
        return AArr((c, r), [self.data[i * c + j] for j in range(c) for i in range(r)], self.dtype)

    def any_(self, axis=None):
        def nz(x):
            x = force(x)
            if isinstance(x, (bool, SBool)):
                return x
            return ops.s_not(eq_value(x, 0))
        if axis is None:
            return ops.s_or(*[nz(x) for x in self.data])
        if self.ndim != 2:
            raise OutOfSubset('any(axis) on non-matrix')
        r, c = self.shape
        if axis == 0:
            return AArr((c,), [ops.s_or(*[nz(self.data[i * c + j]) for i in range(r)]) for j in range(c)], 'bool')
        return AArr((r,), [ops.s_or(*[nz(self.data[i * c + j]) for j in range(c)]) for i in range(r)], 'bool')

    def all_(self, axis=None):
        def nz(x):
            x = force(x)
            if isinstance(x, (bool, SBool)):
                return x
            return ops.s_not(eq_value(x, 0))
        if axis is None:
            return ops.s_and(*[nz(x) for x in self.data])
        if self.ndim != 2:
            raise OutOfSubset('all(axis) on non-matrix')
        r, c = self.shape
        if axis == 0:
            return AArr((c,), [ops.s_and(*[nz(self.data[i * c + j]) for i in range(r)]) for j in range(c)], 'bool')
        return AArr((r,), [ops.s_and(*[nz(self.data[i * c + j]) for j in range(c)]) for i in range(r)], 'bool')

    def __repr__(self):
        return f'AArr{self.shape}{self.data}'


def as_array(x, dtype=None):
    x = force(x)
    if isinstance(x, AArr):
        return x
    if isinstance(x, (list, tuple)):
        if len(x) == 0:
            return AArr((0,), [], dtype)
        subs = [as_array(e, dtype) if isinstance(force(e), (list, tuple, AArr)) else None for e in x]
        if all(s is not None for s in subs):
            sh = subs[0].shape
            if any(s.shape != sh for s in subs):
                raise_py('ValueError', 'inhomogeneous array shape')
            return AArr((len(x),) + sh, [d for s in subs for d in s.data], dtype)
        if any(s is not None for s in subs):
            raise_py('ValueError', 'inhomogeneous array shape')
        return AArr((len(x),), [force(e) for e in x], dtype)
    return AArr((), [x], dtype)


def reshape(a, shape):
    a = as_array(a)
    I = _I()
    if isinstance(shape, (int, SNum)):
        shape = (shape,)
    shape = [I._conc_index(s) for s in shape]
    n = len(a.data)
    if shape.count(-1) > 1:
        raise_py('ValueError', 'can only specify one unknown dimension')
    if -1 in shape:
        known = 1
        for s in shape:
            if s != -1:
                known *= s
        if known == 0 or n % known:
            raise_py('ValueError', 'cannot reshape')
        shape[shape.index(-1)] = n // known
    tot = 1
    for s in shape:
        tot *= s
    if tot != n:
        raise_py('ValueError', f'cannot reshape array of size {n} into shape {tuple(shape)}')
    return AArr(tuple(shape), list(a.data), a.dtype)


def _I():
    from .builtins_ import interp_ref
    return interp_ref[0]


def _broadcast(a, b):
    a, b = as_array(a), as_array(b)
    if a.shape == b.shape:
        return a.shape, a.data, b.data
    if a.shape == ():
        return b.shape, [a.data[0]] * len(b.data), b.data
    if b.shape == ():
        return a.shape, a.data, [b.data[0]] * len(a.data)
    if a.ndim == 2 and b.ndim == 1 and a.shape[1] == b.shape[0]:
        return a.shape, a.data, b.data * a.shape[0]
    if b.ndim == 2 and a.ndim == 1 and b.shape[1] == a.shape[0]:
        return b.shape, a.data * b.shape[0], b.data
    if a.ndim == 2 and b.ndim == 2:
        r = max(a.shape[0], b.shape[0])
        c = max(a.shape[1], b.shape[1])
        def expand(x):
            if x.shape[0] not in (1, r) or x.shape[1] not in (1, c):
                raise_py('ValueError', 'operands could not be broadcast together')
            return [x.data[(i if x.shape[0] > 1 else 0) * x.shape[1] + (j if x.shape[1] > 1 else 0)] for i in range(r) for j in range(c)]
        return (r, c), expand(a), expand(b)
    raise_py('ValueError', f'operands could not be broadcast together with shapes {a.shape} {b.shape}')


def _np_scalar_arith(op, x, y):
    """numpy scalar arithmetic: division by zero gives inf/nan instead of raising."""
    x, y = force(x), force(y)
    if isinstance(x, SNum):
        x = SNum(x.re, x.im, x.tag, True)
    elif isinstance(y, SNum):
        y = SNum(y.re, y.im, y.tag, True)
    elif op in ('/', '%', '//') and is_concrete_num(y) and y == 0:
        if is_concrete_num(x):
            if x == 0 or (isinstance(x, float) and math.isnan(x)):
                return math.nan
            return math.inf if (not isinstance(x, complex) and x > 0) else (-math.inf if not isinstance(x, complex) else complex(math.inf, math.nan))
    return arith(op, x, y)


def arr_binop(I, op, a, b):
    if op == '@':
        return matmul(I, a, b)
    if isinstance(a, (list, tuple)):
        a = as_array(a)
    if isinstance(b, (list, tuple)):
        b = as_array(b)
    shape, xs, ys = _broadcast(a, b)
    if op in ('|', '&'):
        f = ops.s_or if op == '|' else ops.s_and
        return AArr(shape, [f(force(x), force(y)) for x, y in zip(xs, ys)], 'bool')
    dt = None
    if isinstance(a, AArr) and isinstance(b, AArr) and a.dtype == b.dtype:
        dt = a.dtype if a.dtype != 'real' or op != '/' else 'real'
    return AArr(shape, [_np_scalar_arith(op, x, y) for x, y in zip(xs, ys)], dt if dt != 'bool' else None)


def arr_compare(I, op, a, b):
    import ast as _ast
    shape, xs, ys = _broadcast(a, b)
    out = []
    for x, y in zip(xs, ys):
        if isinstance(op, _ast.Eq):
            out.append(eq_value(x, y))
        elif isinstance(op, _ast.NotEq):
            out.append(ops.s_not(eq_value(x, y)))
        else:
            from .interp import _CMPOPS
            out.append(ops.compare(_CMPOPS[type(op)], x, y))
    return AArr(shape, out, 'bool')


def matmul(I, a, b):
    a, b = as_array(a), as_array(b)
    if a.ndim == 0 or b.ndim == 0:
        raise_py('ValueError', 'matmul: scalar operand')
    a2 = a if a.ndim == 2 else AArr((1, a.shape[0]), a.data, a.dtype)
    b2 = b if b.ndim == 2 else AArr((b.shape[0], 1), b.data, b.dtype)
    if a2.shape[1] != b2.shape[0]:
        raise_py('ValueError', f'matmul: shape mismatch {a.shape} @ {b.shape}')
    r, k, c = a2.shape[0], a2.shape[1], b2.shape[1]
    data = []
    for i in range(r):
        for j in range(c):
            acc = 0.0
            for t in range(k):
                acc = arith('+', acc, arith('*', a2.data[i * k + t], b2.data[t * c + j]))
            data.append(acc)
    if a.ndim == 1 and b.ndim == 1:
        return data[0]
    if a.ndim == 1:
        return AArr((c,), data)
    if b.ndim == 1:
        return AArr((r,), data)
    return AArr((r, c), data)


def np_sum(a, axis=None):
    a = force(a)
    if isinstance(a, (list, tuple)):
        a = as_array(a)
    if not isinstance(a, AArr):
        return a
    if axis is not None:
        raise OutOfSubset('np.sum with axis')
    acc = 0.0
    for x in a.data:
        acc = arith('+', acc, x)
    return acc


def _zeros(shape, dtype=None, fill=0.0):
    I = _I()
    shape = force(shape)
    if isinstance(shape, (int, SNum)):
        shape = (shape,)
    shape = tuple(I._conc_index(s) for s in shape)
    n = 1
    for s in shape:
        n *= s
    dt = _dtype_name(dtype)
    return AArr(shape, [fill if dt != 'int' else int(fill)] * n, dt)


def _dtype_name(dtype):
    from .builtins_ import TYPES
    if dtype is None:
        return 'real'
    for k in ('complex', 'int', 'float', 'bool'):
        if dtype is TYPES[k]:
            return {'float': 'real'}.get(k, k)
    if isinstance(dtype, str) and dtype in ('complex', 'int', 'float', 'bool'):
        return {'float': 'real'}.get(dtype, dtype)       # the dtype attribute of a modelled array
    return None


def _stack(arrs, axis):
    I = _I()
    arrs = [as_array(a) for a in I.iterate(arrs)]
    if axis == 'h':
        if all(a.ndim == 1 for a in arrs):
            return AArr((sum(a.shape[0] for a in arrs),), [x for a in arrs for x in a.data])
        arrs = [a if a.ndim == 2 else AArr((1,) + a.shape, a.data) for a in arrs]
        r = arrs[0].shape[0]
        if any(a.shape[0] != r for a in arrs):
            raise_py('ValueError', 'hstack: all the input array dimensions except for the concatenation axis must match exactly')
        data = []
        for i in range(r):
            for a in arrs:
                c = a.shape[1]
                data.extend(a.data[i * c:(i + 1) * c])
        return AArr((r, sum(a.shape[1] for a in arrs)), data)
    arrs = [a if a.ndim == 2 else AArr((1, a.shape[0]), a.data) for a in arrs]
    c = arrs[0].shape[1]
    if any(a.shape[1] != c for a in arrs):
        raise_py('ValueError', 'vstack: all the input array dimensions except for the concatenation axis must match exactly')
    return AArr((sum(a.shape[0] for a in arrs), c), [x for a in arrs for x in a.data])


def _concatenate(arrs, axis=0):
    I = _I()
    arrs = [as_array(a) for a in I.iterate(arrs)]
    if all(a.ndim == 1 for a in arrs):
        return AArr((sum(a.shape[0] for a in arrs),), [x for a in arrs for x in a.data])
    return _stack(arrs, 'v' if axis == 0 else 'h')


def _eye(n, dtype=None):
    n = _I()._conc_index(n)
    return AArr((n, n), [1.0 if i == j else 0.0 for i in range(n) for j in range(n)], 'real')


def _diag(v):
    v = as_array(v)
    if v.ndim == 1:
        n = v.shape[0]
        return AArr((n, n), [v.data[i] if i == j else 0.0 for i in range(n) for j in range(n)])
    if v.ndim == 2:
        n = min(v.shape)
        return AArr((n,), [v.data[i * v.shape[1] + i] for i in range(n)])
    raise OutOfSubset('diag')


def _delete(arr, obj, axis=None):
    arr = as_array(arr)
    I = _I()
    obj = force(obj)
    idxs = [I._conc_index(i) for i in (obj.data if isinstance(obj, AArr) else (obj if isinstance(obj, (list, tuple)) else [obj]))]
    if arr.ndim == 1:
        keep = [i for i in range(arr.shape[0]) if i not in idxs]
        return AArr((len(keep),), [arr.data[i] for i in keep], arr.dtype)
    r, c = arr.shape
    if axis == 0:
        keep = [i for i in range(r) if i not in idxs]
        return AArr((len(keep), c), [arr.data[i * c + j] for i in keep for j in range(c)], arr.dtype)
    keep = [j for j in range(c) if j not in idxs]
    return AArr((r, len(keep)), [arr.data[i * c + j] for i in range(r) for j in keep], arr.dtype)


def _where(cond, *xy):
    if xy:
        if len(xy) != 2:
            raise_py('ValueError', 'either both or neither of x and y should be given')
        from .values import zbool
        sh, c, a = _broadcast(cond, xy[0])
        sh2, c2, b = _broadcast(AArr(sh, list(c)), xy[1])
        if sh2 != sh:
            a = _broadcast(AArr(sh, list(a)), AArr(sh2, list(c2)))[1]
        out = []
        for ci, ai, bi in zip(c2, a, b):
            ci = force(ci)
            if isinstance(ci, bool):
                out.append(ai if ci else bi)
            else:
                out.append(ops.merge([(zbool(ci), lift(ai, as_np=True)), (z3.Not(zbool(ci)), lift(bi, as_np=True))]))
        return AArr(sh2, out)
    cond = as_array(cond)
    if cond.ndim != 1:
        raise OutOfSubset('where on non-vector')
    sel = [k for k, x in enumerate(cond.data) if truth(x)]
    return (AArr((len(sel),), sel, 'int'),)


def _is_zero_entry(x):
    x = force(x)
    return is_concrete_num(x) and x == 0


def det(a):
    """Laplace expansion along the row or column with the most (syntactically) zero entries; zero entries are skipped."""
    a = as_array(a)
    n = a.shape[0]
    if n == 0:
        return 1.0
    d = a.data
    if n == 1:
        return d[0]
    if n == 2:
        return arith('-', arith('*', d[0], d[3]), arith('*', d[1], d[2]))
    best, best_zeros = ('row', 0), -1
    for i in range(n):
        z = sum(1 for j in range(n) if _is_zero_entry(d[i * n + j]))
        if z > best_zeros:
            best, best_zeros = ('row', i), z
        z = sum(1 for j in range(n) if _is_zero_entry(d[j * n + i]))
        if z > best_zeros:
            best, best_zeros = ('col', i), z
    kind, k = best
    total = 0.0
    for t in range(n):
        i, j = (k, t) if kind == 'row' else (t, k)
        x = d[i * n + j]
        if _is_zero_entry(x):
            continue
        minor = AArr((n - 1, n - 1), [d[r * n + c] for r in range(n) if r != i for c in range(n) if c != j])
        term = arith('*', x, det(minor))
        total = arith('+', total, term) if (i + j) % 2 == 0 else arith('-', total, term)
    return total


def _solve(A, b):
    """Assumed contract: A square nonsingular -> the x with A x = b; singular -> LinAlgError.

    The unique solution is written out by Cramer's rule (x_i = det A_i / det A), so no unknowns are introduced."""
    A, b = as_array(A), as_array(b)
    if A.ndim != 2 or A.shape[0] != A.shape[1]:
        raise_py('LinAlgError', 'Last 2 dimensions of the array must be square')
    n = A.shape[0]
    if b.shape[0] != n:
        raise_py('ValueError', 'solve: shape mismatch')
    if n > 7:
        raise OutOfSubset('solve with concrete dimension > 7')
    if n == 0:
        return AArr(b.shape, [])
    d = det(A)
    if truth(eq_value(d, 0)):
        raise_py('LinAlgError', 'Singular matrix')
    cols = 1 if b.ndim == 1 else b.shape[1]
    xs = [None] * (n * cols)
    for c in range(cols):
        col = [b.data[i * cols + c] if b.ndim == 2 else b.data[i] for i in range(n)]
        for k in range(n):
            Ak = AArr((n, n), [col[i] if j == k else A.data[i * n + j] for i in range(n) for j in range(n)])
            xs[k * cols + c] = _np_scalar_arith('/', det(Ak), d)
    return AArr(b.shape, xs)


def _inv(A):
    A = as_array(A)
    if A.ndim != 2 or A.shape[0] != A.shape[1]:
        raise_py('LinAlgError', 'Last 2 dimensions of the array must be square')
    n = A.shape[0]
    return _solve(A, _eye(n))


def _fmod(x, y):
    """C fmod: result has the sign of x;  x - y*trunc(x/y)."""
    q = arith('/', x, y)
    from .builtins_ import b_int
    t = b_int([q], {})
    return arith('-', x, arith('*', y, t))


def _vectorize(f):
    I = _I()

    def call(args, kw):
        x = force(args[0])
        if isinstance(x, AArr):
            return x.map(lambda v: I.call(f, [v], {}))
        if isinstance(x, (list, tuple)):
            return as_array([I.call(f, [v], {}) for v in x])
        return I.call(f, [x], {})
    return Builtin('vectorized', call)


def _elementwise(f):
    def g(x, *rest, **kw):
        x = force(x)
        if isinstance(x, AArr):
            return x.map(lambda v: f(v, *rest, **kw))
        if isinstance(x, (list, tuple)):
            return as_array(x).map(lambda v: f(v, *rest, **kw))
        return f(x, *rest, **kw)
    return g


_NUMPY = None


def numpy_module():
    global _NUMPY
    if _NUMPY is not None:
        return _NUMPY
    from .builtins_ import (StubModule, _B, sym_pi, sym_cos, sym_sin, sym_exp, sym_sqrt, sym_abs, sym_angle, sym_floor,
                            sym_round, is_finite, is_nan, _EXC, TYPES)

    def radians(x):
        return arith('/', arith('*', x, sym_pi()), 180)

    def np_any(a, axis=None):
        a = force(a)
        if isinstance(a, AArr):
            return a.any_(axis)
        if isinstance(a, (list, tuple)):
            return as_array(a).any_(axis)
        return ops.s_not(eq_value(a, 0)) if not isinstance(a, (bool, SBool)) else a

    def np_array(x, dtype=None):
        x = force(x)
        if isinstance(x, AArr):
            return x.copy()
        return as_array(x, _dtype_name(dtype) if dtype is not None else None)

    def np_size(a):
        return len(as_array(a).data)

    def np_arange(*a):
        a = [norm_num(force(x)) for x in a]
        if all(is_concrete_num(x) for x in a):
            import numpy as _np
            return as_array([float(v) if isinstance(v, _np.floating) else int(v) for v in _np.arange(*a)])
        if len(a) == 1 and isinstance(a[0], SNum) and a[0].im is None:
            # arange(x) = 0, 1, ..., ceil(x)-1 ; the length is decided by forking (at most 8 elements are explored)
            stop = a[0]
            is_float = not stop.is_int
            for k in range(0, 9):
                if truth(ops.compare('<=', stop, k)):
                    return as_array([float(v) if is_float else v for v in range(k)])
            raise OutOfSubset('arange with symbolic bound above 8')
        raise OutOfSubset('arange with symbolic bounds')

    def np_ones(shape, dtype=None):
        return _zeros(shape, dtype, 1.0)

    def np_ndarray(shape=None, dtype=None):
        return _zeros(shape, dtype)

    def np_empty(shape, dtype=None):
        return _zeros(shape, dtype)

    def logical_not(x):
        x = force(x)
        if isinstance(x, AArr):
            return x.map(ops.s_not)
        return ops.s_not(x)

    def np_isinf(x):
        return ops.s_and(ops.s_not(is_finite(x)), ops.s_not(is_nan(x)))

    def np_mod(x, y):
        return _np_scalar_arith('%', x, y)

    def np_log10(x):
        x = norm_num(force(x))
        if is_concrete_num(x):
            if x == 0:
                return -math.inf
            return math.log10(x)
        from .builtins_ import LOG10
        return SNum(LOG10(lift(x).rez()), np=True)

    def np_isclose(a, b, rtol=1e-05, atol=1e-08):
        diff = sym_abs(arith('-', a, b))
        return ops.compare('<=', diff, arith('+', atol, arith('*', rtol, sym_abs(b))))

    linalg = StubModule('numpy.linalg', {
        'solve': _B('solve', _solve), 'inv': _B('inv', _inv), 'LinAlgError': _EXC['LinAlgError'], 'det': _B('det', det),
    })
    table = {
        'pi': sym_pi(), 'inf': math.inf, 'nan': math.nan,
        'cos': _B('cos', _elementwise(sym_cos)), 'sin': _B('sin', _elementwise(sym_sin)), 'exp': _B('exp', _elementwise(sym_exp)),
        'sqrt': _B('sqrt', _elementwise(sym_sqrt)), 'abs': _B('abs', _elementwise(sym_abs)), 'absolute': _B('abs', _elementwise(sym_abs)),
        'angle': _B('angle', _elementwise(sym_angle)), 'floor': _B('floor', _elementwise(sym_floor)),
        'round': _B('round', _elementwise(sym_round)),
        'isfinite': _B('isfinite', is_finite), 'isnan': _B('isnan', is_nan), 'isinf': _B('isinf', np_isinf),
        'radians': _B('radians', _elementwise(radians)), 'deg2rad': _B('deg2rad', _elementwise(radians)),
        'conj': _B('conj', _elementwise(ops.conj)), 'conjugate': _B('conj', _elementwise(ops.conj)),
        'real': _B('real', _elementwise(ops.real_part)), 'imag': _B('imag', _elementwise(ops.imag_part)),
        'mod': _B('mod', np_mod), 'log10': _B('log10', np_log10), 'isclose': _B('isclose', lambda a, b, rtol=1e-05, atol=1e-08: (force(a).map(lambda x: np_isclose(x, b, rtol, atol)) if isinstance(force(a), AArr) else np_isclose(a, b, rtol, atol))),
        'fmod': _B('fmod', lambda x, y: _fmod(x, y)),
        'array': _B('array', np_array), 'zeros': _B('zeros', _zeros), 'ones': _B('ones', np_ones), 'eye': _B('eye', _eye),
        'empty': _B('empty', np_empty), 'ndarray': _B('ndarray', np_ndarray),
        'diag': _B('diag', _diag), 'diagonal': _B('diagonal', _diag), 'hstack': _B('hstack', lambda a: _stack(a, 'h')), 'vstack': _B('vstack', lambda a: _stack(a, 'v')),
        'concatenate': _B('concatenate', _concatenate), 'delete': _B('delete', _delete), 'where': _B('where', _where),
        'sum': _B('sum', np_sum), 'any': _B('any', np_any), 'logical_not': _B('logical_not', logical_not),
        'size': _B('size', np_size), 'arange': _B('arange', np_arange), 'reshape': _B('reshape', reshape),
        'vectorize': _B('vectorize', _vectorize), 'linalg': linalg, 'matmul': _B('matmul', lambda a, b: matmul(_I(), a, b)),
        'errstate': _B('errstate', lambda **kw: Opaque('errstate')),
        'transpose': _B('transpose', lambda a: as_array(a).transpose()),
    }
    _NUMPY = StubModule('numpy', table)
    return _NUMPY
