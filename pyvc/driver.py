"""Orchestration of one property check: verify contracts in parallel, replay counter-models on the real code,
cross-check the encoder against CPython, apply known findings and the ledger, write evidence."""
from __future__ import annotations
import hashlib
import json
import multiprocessing as mp
import os
import sys
import time
import traceback

from . import plan

_ENGINE = None
_CFG = {}


def _load_engine(repo_src, verif, sidecars):
    from .engine import Engine
    e = Engine(repo_src, verif)
    errors = {}
    for s in sidecars:
        try:
            e.load_sidecar(s)
        except Exception as ex:      # a sidecar that cannot be loaded (e.g. the repo module it imports is broken)
            from .values import PyRaise, OutOfSubset
            if isinstance(ex, PyRaise):
                errors[s] = f'{ex.exc.cls.name}{ex.exc.attrs.get("args", ())}'
            elif isinstance(ex, OutOfSubset):
                errors[s] = 'out-of-subset: ' + str(ex)
            else:
                raise
    return e, errors


def _work(idx):
    """Runs in a forked worker: verify contract idx, replay counter-models natively, cross-check."""
    from . import xcheck
    e = _ENGINE
    c = e.u.contracts[idx]
    cfg = _CFG
    t0 = time.time()
    try:
        r = e.verify(c, timeout_ms=cfg['timeout_ms'])
    except Exception:
        return {'contract': c['name'], 'sidecar': c['module'], 'target': c['target'], 'props': c['props'], 'status': 'crash',
                'trace': traceback.format_exc(), 'obligations': []}
    try:
        if r['status'] == 'failed':
            jobs, where = [], []
            for o in r['obligations']:
                for k, ce in enumerate(o.get('counterexamples', [])):
                    if ce['leaves'] and all(d.get('value') is not None for d in ce['leaves'].values()):
                        jobs.append({'sidecar': c['module'], 'contract': c['name'], 'leaves': ce['leaves']})
                        where.append((o, ce))
            if jobs:
                outs = xcheck.run_native(jobs, cfg['repo_src'], cfg['verif'])
                for (o, ce), nat in zip(where, outs):
                    ce['native'] = nat
                    ce['confirmed'] = bool(nat.get('pre')) and bool(nat.get('failed'))
            for o in r['obligations']:
                if o['status'] == 'failed' and not any(ce.get('confirmed') for ce in o.get('counterexamples', [])):
                    # bounded concrete search with the run-time contract (DESIGN 3.5)
                    nat = xcheck.run_native([{'sidecar': c['module'], 'contract': c['name'], 'random': cfg['random_n'], 'seed': cfg['seed'], 'moderate': c['meta'].get('search') != 'wide'}],
                                            cfg['repo_src'], cfg['verif'])[0]
                    o['random_search'] = {'tried': nat.get('tried'), 'pre_held': nat.get('pre_held'), 'failures': nat.get('failures', [])[:2]}
                    break
        recs = getattr(e, 'last_recs', None)
        if r['obligations'] and recs and any(kind == 'list' for kind, _ in recs[0][1].leaves.values()):
            # contracts over abstract (arbitrary-length) sequences: the solver proves, but rarely finds models of quantified
            # formulas; the run-time contract on the real code for random lists supplies the failing inputs
            nat = xcheck.run_native([{'sidecar': c['module'], 'contract': c['name'], 'random': cfg['random_n'], 'seed': cfg['seed'], 'max_fail': 6}],
                                    cfg['repo_src'], cfg['verif'])[0]
            fails = [f for f in nat.get('failures', []) if f.get('failed')]
            errs = [f for f in nat.get('failures', []) if 'error' in f]
            r['native_samples'] = {'tried': nat.get('tried'), 'pre_held': nat.get('pre_held'), 'failures': len(fails), 'errors': [x['error'][-400:] for x in errs[:1]]}
            for o in r['obligations']:
                mine = [f for f in fails if o['id'] in f.get('failed', [])]
                if mine:
                    o['status'] = 'failed'
                    o['random_search'] = {'tried': nat.get('tried'), 'pre_held': nat.get('pre_held'), 'failures': mine[:2]}
            sts = [o['status'] for o in r['obligations']]
            r['status'] = 'failed' if 'failed' in sts else ('undecided' if 'undecided' in sts else r['status'])
        if r['status'] in ('out-of-subset', 'undecided') and not r['obligations']:
            # DESIGN 3.5: a function outside the subset (or an undecided contract) gets a bounded concrete search with the run-time contract
            # well-conditioned random values: the run-time oracle compares floats, and on inputs spanning many decades exact-equality
            # clauses (KCL, Tellegen) fail by round-off on correct code (29 of 313 contracts did, on the unchanged tree)
            nat = xcheck.run_native([{'sidecar': c['module'], 'contract': c['name'], 'random': cfg['random_n'], 'seed': cfg['seed'], 'moderate': c['meta'].get('search') != 'wide'}], cfg['repo_src'], cfg['verif'])[0]
            r['random_search'] = {'tried': nat.get('tried'), 'pre_held': nat.get('pre_held'), 'failures': nat.get('failures', [])[:2]}
        if r['status'] in ('discharged', 'failed') and cfg['xcheck_n'] > 0 and not c['meta'].get('no_xcheck'):
            r['crosscheck'] = xcheck.crosscheck(c, e.last_recs, cfg['repo_src'], cfg['verif'], r.get('pre_witness'), n=cfg['xcheck_n'], seed=cfg['seed'])
    except Exception:
        r['status'] = 'crash'
        r['trace'] = traceback.format_exc()
    r['wall_s'] = round(time.time() - t0, 3)
    return r


def _unstable(r, ledger):
    """A contract whose set of generated obligations differs from the committed ledger although none failed."""
    if not ledger or r['status'] == 'failed':
        return False
    prefix = f"{r['sidecar'].split('.')[-1]}.{r['contract']}#"
    have = {prefix + o['id'] for o in r.get('obligations', [])}
    want = {k for k in ledger if k.startswith(prefix)}
    return bool(want) and not want <= have


def run_contracts(repo_src, verif, sidecars, select, tier, seed, jobs, ledger=None):
    global _ENGINE, _CFG
    e, load_errors = _load_engine(repo_src, verif, sidecars)
    _ENGINE = e
    _CFG = {'timeout_ms': 10000 if tier == 'quick' else 60000, 'repo_src': repo_src, 'verif': verif, 'seed': seed,
            'xcheck_n': 2 if tier == 'quick' else 20, 'random_n': 300 if tier == 'quick' else 3000}
    idxs = [i for i, c in enumerate(e.u.contracts) if select(c)]
    if not idxs:
        return e, [], load_errors
    budget_s = 900 if tier == 'quick' else 5400       # wall-clock budget of the whole contract phase of one check

    def abandoned(i, why):
        c = e.u.contracts[i]
        return {'contract': c['name'], 'sidecar': c['module'], 'target': c['target'], 'props': c['props'], 'status': 'undecided',
                'obligations': [], 'notes': [why], 'bounded': c['meta'].get('bounded')}

    def run_batch(batch, procs, deadline):
        """Every contract in a worker process; a worker that overruns the deadline or dies (z3 has crashed on pathological terms)
        is abandoned and its contract reported undecided - the check always terminates."""
        ctx = mp.get_context('fork')
        pool = ctx.Pool(max(1, min(procs, len(batch))))
        out = {}
        try:
            asyncs = [(i, pool.apply_async(_work, (i,))) for i in batch]
            for i, a in asyncs:
                try:
                    out[i] = a.get(timeout=max(1.0, deadline - time.time()))
                except mp.TimeoutError:
                    out[i] = abandoned(i, 'wall-clock budget of the check exceeded, or the worker process died (solver crash)')
                except Exception as ex:      # noqa
                    out[i] = abandoned(i, f'worker failed: {type(ex).__name__}: {ex}')
        finally:
            pool.terminate()
        return out
    t_start = time.time()
    first = run_batch(idxs, jobs, t_start + budget_s * 0.6)
    results = [first[i] for i in idxs]
    # Solver budgets are wall-clock: with all cores busy an obligation may come back `unknown` (or a contract may crash on a
    # path that a timed-out feasibility query failed to prune).  Such contracts are re-run once with a tripled budget;
    # verdicts `failed` (counter-model found) are never re-run.
    redo = [k for k, r in enumerate(results) if r['status'] in ('undecided', 'crash', 'contract-error') or (r['status'] == 'out-of-subset' and 'not evaluable on this path' in ' '.join(r.get('notes', []))) or _unstable(r, ledger)]
    if redo and any(r['status'] == 'failed' for r in results):
        redo = [k for k in redo if results[k]['status'] in ('crash', 'contract-error')]      # a refuted obligation settles the verdict; no point in spending the triple budget on the undecided rest
    if redo and time.time() < t_start + budget_s * 0.8:
        _CFG['timeout_ms'] *= 3
        from .values import CTX
        CTX.branch_timeout_ms *= 3
        second = run_batch([idxs[k] for k in redo], min(jobs, 4), t_start + budget_s)
        for k in redo:
            before = results[k]
            results[k] = second[idxs[k]]
            results[k]['rerun_after'] = before['status']
        CTX.branch_timeout_ms //= 3
        _CFG['timeout_ms'] //= 3
    return e, results, load_errors


def load_json(path, default):
    try:
        return json.load(open(path))
    except FileNotFoundError:
        return default


def obligation_key(r, o):
    return f"{r['sidecar'].split('.')[-1]}.{r['contract']}#{o['id']}"


def check_property(pid, tier, seed, repo_src, verif, jobs=16, only=None, verbose=False):
    t0 = time.time()
    spec = plan.PROPS.get(pid)
    if spec is None:
        print(f'property {pid} is not claimed (see MANIFEST.json not_applicable)')
        return 2
    known = load_json(os.path.join(verif, 'known_findings.json'), {'findings': []})
    ledger = load_json(os.path.join(verif, 'contracts', 'ledger.json'), {})

    def select(c):
        return pid in c['props'] and (only is None or c['name'] in only)
    e, results, load_errors = run_contracts(repo_src, verif, spec['sidecars'], select, tier, seed, jobs, ledger=ledger)

    violations, undecided, crashes, kf_lines = [], [], [], []
    detail = {}
    minor = []
    n_ob = n_dis = 0
    nb_ob = nb_dis = 0
    bounded_list = []
    functions = []
    samples = []
    xc = {'samples': 0, 'compared': 0, 'agreed': 0}
    solver_ms = 0
    backends = {}
    os.makedirs(os.path.join(verif, 'replays'), exist_ok=True)
    for s, msg in load_errors.items():
        undecided.append(f'sidecar {s} could not be loaded: {msg}')
    for r in results:
        if r['status'] == 'crash':
            crashes.append(f"{r['contract']}: {r.get('trace', '')}")
            continue
        if r.get('source'):
            functions.append({'function': r['target'], 'contract': r['contract'], **r['source'], 'paths': r.get('paths'),
                              'inlined': r.get('inlined', [])})
        if r['status'] in ('out-of-subset', 'undecided', 'contract-error') and not r['obligations']:
            rs = r.get('random_search') or {}
            bad = [f for f in rs.get('failures', []) if f.get('failed')]
            n_ob += 1
            if bad:
                key = f"{r['sidecar'].split('.')[-1]}.{r['contract']}#" + bad[0]['failed'][0]
                fname = os.path.join('replays', f"{pid}-{r['contract']}-bounded-search.json")
                json.dump({'property': pid, 'obligation': key, 'function': r['target'], 'sidecar': r['sidecar'], 'contract': r['contract'],
                           'status': 'confirmed-by-bounded-search (the contract is outside the symbolic subset: ' + '; '.join(r.get('notes', [])) + ')',
                           'leaves': {k: _leaf_json(v) for k, v in (bad[0].get('leaves_used') or {}).items()}, 'native': bad[0]},
                          open(os.path.join(verif, fname), 'w'), indent=1, default=str)
                violations.append((key, fname, ''))
            else:
                undecided.append(f"{r['contract']}: {r['status']}: {'; '.join(r.get('notes', []))}")
            continue
        x = r.get('crosscheck')
        if x and x.get('native_failures') and r['status'] != 'failed':
            nf = x['native_failures'][0]
            key = f"{r['sidecar'].split('.')[-1]}.{r['contract']}#{nf['failed'][0]}"
            fname = os.path.join('replays', f"{pid}-{r['contract']}-native-sample.json")
            json.dump({'property': pid, 'obligation': key, 'function': r['target'], 'sidecar': r['sidecar'], 'contract': r['contract'], 'clause': nf['failed'][0],
                       'status': 'confirmed-on-real-code (sampled input of the CPython cross-check; the symbolic model did not expose it - an assumed contract on a dependency is too strong)',
                       'leaves': nf['leaves'], 'native': nf}, open(os.path.join(verif, fname), 'w'), indent=1, default=str)
            violations.append((key, fname, ''))
        if x:
            for k in xc:
                xc[k] += x.get(k, 0)
            nd = len(x.get('disagreements') or [])
            if nd and nd * 2 <= x.get('compared', 0):
                minor.append({'contract': r['contract'], 'disagreements': x['disagreements'][:2]})
            elif nd:
                crashes.append(f"{r['contract']}: symbolic executor and CPython disagree: {json.dumps(x['disagreements'][:1], default=str)[:1500]}")
        bound = r.get('bounded')
        if bound:
            bounded_list.append({'contract': f"{r['sidecar'].split('.')[-1]}.{r['contract']}", 'function': r['target'], 'bound': bound,
                                 'obligations': len(r['obligations']), 'discharged': sum(1 for o in r['obligations'] if o['status'] == 'discharged')})
        for o in r['obligations']:
            key = obligation_key(r, o)
            if bound:
                nb_ob += 1
                nb_dis += 1 if o['status'] == 'discharged' else 0
            else:
                n_ob += 1
            solver_ms += o.get('ms', 0)
            for q in o['queries']:
                backends[q['backend']] = backends.get(q['backend'], 0) + 1
            if o['status'] == 'discharged':
                if not bound:
                    n_dis += 1
                if len(samples) < 6 and o['queries'] and o['id'].startswith('post') and not bound:
                    samples.append({'obligation': key, 'function': r['target'], 'verdict': 'discharged',
                                    'queries': o['queries'][:4]})
                continue
            if o['status'] == 'undecided':
                undecided.append(f'{key}: solver returned unknown')
                continue
            # failed
            confirmed = [ce for ce in o.get('counterexamples', []) if ce.get('confirmed')]
            rs = o.get('random_search') or {}
            rand_fail = [f for f in rs.get('failures', []) if f.get('failed')]
            replay = {'property': pid, 'obligation': key, 'function': r['target'], 'source': r.get('source'), 'sidecar': r['sidecar'],
                      'contract': r['contract'], 'clause': o['id'], 'solver_queries': o['queries'],
                      'counterexamples': o.get('counterexamples', []), 'random_search': rs, 'notes': r.get('notes', [])}
            fname = os.path.join('replays', f"{pid}-{r['contract']}-{o['id'].replace('/', '_')}.json")
            if confirmed:
                replay['leaves'] = confirmed[0]['leaves']
                replay['status'] = 'confirmed-by-replay'
            elif rand_fail:
                replay['leaves'] = {k: _leaf_json(v) for k, v in (rand_fail[0].get('leaves_used') or {}).items()}
                replay['status'] = 'confirmed-by-bounded-search'
            else:
                replay['status'] = 'no-failing-input-found'
            json.dump(replay, open(os.path.join(verif, fname), 'w'), indent=1, default=str)
            detail[key] = o
            if confirmed or rand_fail:
                violations.append((key, fname, ''))
            elif ledger.get(key, {}).get('status') == 'discharged':
                violations.append((key, fname, ' no-failing-input-found'))
            else:
                undecided.append(f'{key}: solver found a counter-model that does not replay on the real code and the obligation is not in the ledger')

    # extra obligation groups (frame pass, lean lemmas, dispatch completeness, stand-ins)
    extras = []
    standins = []
    for grp in spec.get('extras', []):
        try:
            res = grp(pid=pid, tier=tier, seed=seed, repo_src=repo_src, verif=verif, engine=e)
        except Exception:
            crashes.append(f'extra group {getattr(grp, "__name__", grp)}: {traceback.format_exc()}')
            continue
        for o in res.get('obligations', []):
            n_ob += 1
            if o['status'] == 'discharged':
                n_dis += 1
            elif o['status'] == 'failed':
                fname = os.path.join('replays', f"{pid}-{o['id'].replace('/', '_').replace(' ', '_')[:100]}.json")
                json.dump({'property': pid, 'obligation': o['id'], **o}, open(os.path.join(verif, fname), 'w'), indent=1, default=str)
                violations.append((o['id'], fname, '' if o.get('replayed') else ' no-failing-input-found'))
            else:
                undecided.append(f"{o['id']}: {o.get('detail', o['status'])}")
            extras.append({k: v for k, v in o.items() if k not in ('counterexample',)})
        standins += res.get('standins', [])
        for v in res.get('standin_violations', []):
            violations.append(v)

    # ledger: every recorded obligation of this property must have been generated again (DESIGN 3.7)
    seen = {obligation_key(r, o) for r in results for o in r.get('obligations', [])} | {o['id'] for o in extras}
    if only is None:
        for key, entry in ledger.items():
            if pid in entry.get('props', []) and key not in seen:
                if key.startswith('frame:'):
                    # FRAME-pass obligations are per mutation SITE and are named after the local variable: a renamed local or a
                    # restructured function yields differently named sites, each of which is itself proved or refuted in this
                    # run.  A site that no longer exists has nothing left to mutate; its disappearance is not a verdict.
                    continue
                undecided.append(f'{key}: recorded in the ledger but not generated any more (function renamed/deleted or contract unbound)')

    # known findings
    remaining = []
    for key, fname, suffix in violations:
        kf = [f for f in known.get('findings', []) if f.get('property') == pid and f.get('obligation') == key and f.get('status') == 'open'
              and _finding_matches(f, detail.get(key))]
        if kf:
            kf_lines.append(f"KNOWN-FINDING: property={pid} {kf[0]['what']}")
        else:
            remaining.append((key, fname, suffix))
    violations = remaining

    seq_contracts = [r for r in results if r.get('native_samples') is not None]
    seq_assumptions = []
    if seq_contracts:
        from . import seq as _seq
        seq_assumptions = ['sequence layer (contracts over lists of arbitrary length: ' + ', '.join(sorted(r['contract'] for r in seq_contracts)) + '): '
                           'a comprehension / any / all / in / len / sum / sorted / set / dict / index / sort over an abstract list is given its list semantics as a '
                           'quantified formula obtained by evaluating the body ONCE on a generic element (bodies are assumed free of side effects on anything but '
                           'their own fresh objects; exceptions are raised for the first offending index); symbols introduced by the semantics are characterised by '
                           'these axioms, which are assumed, not proved: ' + ' | '.join(_seq.AXIOMS_DOC),
                           'sequence layer: branch feasibility inside quantified paths is decided on the quantifier-free part only (over-approximation: an infeasible '
                           'path may be kept and is then discharged from its contradictory path condition); failing inputs for quantified obligations come from the '
                           'run-time contract on the real code for random lists (CPython), since the SMT solver rarely produces models of quantified formulas',
                           'sequence layer: native samples per contract: ' + '; '.join(f"{r['contract']}: {r['native_samples'].get('pre_held')} of {r['native_samples'].get('tried')} random inputs satisfied requires, {r['native_samples'].get('failures')} failed" for r in seq_contracts)]
    wall = round(time.time() - t0, 2)
    level = spec['level']
    ev = {
        'property_id': pid, 'tier': tier, 'seed': seed, 'level': level,
        'coverage': {
            'obligations': n_ob, 'discharged': n_dis,
            'checker_cmd': f'python3-vt check.py {pid} --tier {tier}',
            'trusted_base': plan.trusted_base(spec),
            'explanation': spec.get('explanation', ''),
            'samples': samples or [{'note': 'no SMT obligation sample available'}],
            'functions_under_contract': functions,
            'extra_obligations': extras,
            'bounded_standins_not_counted_as_proved': {'contracts_with_a_stated_bound': bounded_list, 'obligations': nb_ob, 'discharged': nb_dis,
                                                       'other': standins},
            'evaluations': sum(st.get('evaluations') or 0 for st in standins) + xc['compared'],
            'distinct_nontrivial': sum(st.get('distinct') or 0 for st in standins) + xc['compared'],
            'rule': 'evaluations = inputs on which a bounded stand-in ran the real code + CPython cross-check samples; distinct = distinct (value, precision) pairs / samples',
            'solver': {'backends': backends, 'solver_ms_total': solver_ms},
            'cpython_crosscheck': xc,
            'cpython_crosscheck_isolated_disagreements (minority of samples; round-off suspected, not treated as encoder error)': minor,
            'undecided': undecided, 'known_findings_hit': kf_lines,
        },
        'assumptions': plan.assumptions(spec) + seq_assumptions,
        'wall_s': wall,
        'violations': len(violations),
    }
    # evidence describes /repo itself; a run against a scratch copy (VERIF_REPO=<worktree>, seeded-change evaluation) must
    # never overwrite it
    evdir = 'evidence' if os.path.realpath(os.environ.get('VERIF_REPO', '/repo')) == '/repo' else 'evidence_scratch'
    os.makedirs(os.path.join(verif, evdir), exist_ok=True)
    json.dump(ev, open(os.path.join(verif, evdir, f'{pid}.json'), 'w'), indent=1, default=str)

    for line in kf_lines:
        print(line)
    print(f'{pid}: {n_dis}/{n_ob} obligations discharged (+ {nb_dis}/{nb_ob} bounded, not counted as proved) over {len(functions)} functions under contract; '
          f'crosscheck {xc["agreed"]}/{xc["compared"]}; {wall}s')
    if crashes:
        for c in crashes:
            print('CHECKER-ERROR:', c, file=sys.stderr)
        return 3
    for key, fname, suffix in violations:
        print(f'VIOLATION property={pid} replay={fname}{suffix}')
        print(f'  failed obligation: {key}')
    if violations:
        return 1
    if undecided:
        for u in undecided:
            print('UNDECIDED', u)
        return 2
    if n_ob + nb_ob == 0 and not any(st.get('evaluations') for st in standins):
        print('UNDECIDED no obligations were generated (vacuous check)')
        return 2
    return 0


def _finding_matches(f, o):
    """A known finding suppresses only the recorded way of failing (DESIGN 3.8)."""
    m = f.get('match') or {}
    if not m or o is None:
        return True
    ces = o.get('counterexamples', [])
    if 'raised' in m:
        return bool(ces) and all(ce.get('raised') == m['raised'] for ce in ces)
    return True


def _leaf_json(v):
    if isinstance(v, bool):
        return {'kind': 'bool', 'value': v}
    if isinstance(v, int):
        return {'kind': 'int', 'value': v}
    if isinstance(v, float):
        from fractions import Fraction
        f = Fraction(v)
        return {'kind': 'real', 'value': [f.numerator, f.denominator]}
    if isinstance(v, list):
        from fractions import Fraction
        a, b = Fraction(v[0]), Fraction(v[1])
        return {'kind': 'complex', 'value': [[a.numerator, a.denominator], [b.numerator, b.denominator]]}
    return {'kind': 'label', 'value': str(v)}


def replay_file(path, repo_src, verif):
    from . import xcheck
    rp = json.load(open(path))
    if 'leaves' not in rp or not rp.get('contract'):
        print(json.dumps({k: rp[k] for k in rp if k in ('property', 'obligation', 'status', 'detail')}, indent=1))
        print('no concrete failing input recorded for this obligation (no-failing-input-found); solver output is in the file')
        return 1
    nat = xcheck.run_native([{'sidecar': rp['sidecar'], 'contract': rp['contract'], 'leaves': rp['leaves']}], repo_src, verif)[0]
    print(json.dumps(nat, indent=1, default=str))
    if nat.get('pre') and nat.get('failed'):
        print(f"VIOLATION property={rp['property']} replay={path}")
        return 1
    print('the recorded input no longer violates the contract')
    return 0


def update_ledger(repo_src, verif, jobs):
    previous = load_json(os.path.join(verif, 'contracts', 'ledger.json'), {})
    ledger = {}
    for pid in plan.all_properties():
        spec = plan.PROPS[pid]
        e, results, load_errors = run_contracts(repo_src, verif, spec['sidecars'], lambda c: pid in c['props'], 'quick', 0, jobs, ledger=previous)
        for r in results:
            for o in r.get('obligations', []):
                k = obligation_key(r, o)
                ent = ledger.setdefault(k, {'status': o['status'], 'props': []})
                if pid not in ent['props']:
                    ent['props'].append(pid)
        for grp in spec.get('extras', []):
            res = grp(pid=pid, tier='quick', seed=0, repo_src=repo_src, verif=verif, engine=e)
            for o in res.get('obligations', []):
                ent = ledger.setdefault(o['id'], {'status': o['status'], 'props': []})
                if pid not in ent['props']:
                    ent['props'].append(pid)
    json.dump(ledger, open(os.path.join(verif, 'contracts', 'ledger.json'), 'w'), indent=1, sort_keys=True)
    print(f'ledger: {len(ledger)} obligations, {sum(1 for v in ledger.values() if v["status"] == "discharged")} discharged')
    return 0
