"""Numeric evaluation of z3 terms under the *real* interpretation of cos/sin/pi/sqrt/... (used by the CPython
cross-check of the encoder and to pick candidate inputs).  Raises Unevaluable for terms that mention constants
without a value (e.g. the unknowns introduced by the assumed contract of np.linalg.solve)."""
from __future__ import annotations
import math
import cmath
from fractions import Fraction
import z3


class Unevaluable(Exception):
    pass


class Ambiguous(Exception):
    """A comparison is too close to its boundary to be decided in floating point."""


EPS = 1e-9


def close(a, b):
    return abs(a - b) <= EPS * max(1.0, abs(a), abs(b))


def zeval(t, env, cache=None):
    """env: dict z3-constant-name -> float/bool/int."""
    if cache is None:
        cache = {}
    key = t.get_id()
    if key in cache:
        return cache[key]
    v = _ev(t, env, cache)
    cache[key] = v
    return v


def _ev(t, env, cache):
    if z3.is_int_value(t):
        return t.as_long()
    if z3.is_rational_value(t):
        return t.numerator_as_long() / t.denominator_as_long()
    if z3.is_algebraic_value(t):
        return float(t.approx(20).as_fraction())
    if z3.is_true(t):
        return True
    if z3.is_false(t):
        return False
    if z3.is_quantifier(t):
        raise Unevaluable('quantifier')
    if not z3.is_app(t):
        raise Unevaluable(str(t))
    d = t.decl()
    k = d.kind()
    ch = t.children()
    name = d.name()
    if k == z3.Z3_OP_UNINTERPRETED:
        if not ch:
            if name == 'pi':
                return math.pi
            if name == 'sqrt2':
                return math.sqrt(2)
            if name == 'inv_pi':
                return 1 / math.pi
            if name == 'inv_sqrt2':
                return 1 / math.sqrt(2)
            if name in env:
                return env[name]
            raise Unevaluable(name)
        a = [zeval(c, env, cache) for c in ch]
        if name == 'cos':
            return math.cos(a[0])
        if name == 'sin':
            return math.sin(a[0])
        if name == 'sqrt':
            if a[0] < 0:
                raise Unevaluable('sqrt of negative')
            return math.sqrt(a[0])
        if name == 'cabs':
            return math.hypot(a[0], a[1])
        if name == 'carg':
            return math.atan2(a[1], a[0])
        if name == 'round':
            if close(a[0] - math.floor(a[0]), 0.5) and (a[0] - math.floor(a[0])) != 0.5:
                raise Ambiguous('round near tie')
            return int(round(a[0]))
        if name == 'exp':
            return math.exp(a[0])
        if name == 'log10':
            return math.log10(a[0])
        if ('fn:' + name) in env:
            return env['fn:' + name](*a)
        raise Unevaluable(name)
    if k == z3.Z3_OP_ITE:
        c = zeval(ch[0], env, cache)
        return zeval(ch[1] if c else ch[2], env, cache)
    if k == z3.Z3_OP_AND:
        # evaluate all so that ambiguity is noticed only where it matters
        res = True
        for c in ch:
            if not zeval(c, env, cache):
                res = False
                break
        return res
    if k == z3.Z3_OP_OR:
        for c in ch:
            if zeval(c, env, cache):
                return True
        return False
    if k == z3.Z3_OP_NOT:
        return not zeval(ch[0], env, cache)
    if k == z3.Z3_OP_IMPLIES:
        return (not zeval(ch[0], env, cache)) or zeval(ch[1], env, cache)
    if k == z3.Z3_OP_XOR:
        return bool(zeval(ch[0], env, cache)) != bool(zeval(ch[1], env, cache))
    a = [zeval(c, env, cache) for c in ch]
    if k == z3.Z3_OP_ADD:
        return sum(a)
    if k == z3.Z3_OP_SUB:
        r = a[0]
        for x in a[1:]:
            r -= x
        return r
    if k == z3.Z3_OP_UMINUS:
        return -a[0]
    if k == z3.Z3_OP_MUL:
        r = 1
        for x in a:
            r *= x
        return r
    if k == z3.Z3_OP_DIV:
        if a[1] == 0:
            raise Unevaluable('division by zero')
        return a[0] / a[1]
    if k == z3.Z3_OP_IDIV:
        if a[1] == 0:
            raise Unevaluable('division by zero')
        q = a[0] // a[1] if a[1] > 0 else -(a[0] // -a[1])
        return q
    if k == z3.Z3_OP_MOD:
        if a[1] == 0:
            raise Unevaluable('mod by zero')
        return a[0] % abs(a[1])
    if k == z3.Z3_OP_POWER:
        return a[0] ** a[1]
    if k == z3.Z3_OP_TO_REAL:
        return float(a[0])
    if k == z3.Z3_OP_TO_INT:
        f = math.floor(a[0])
        if close(a[0], round(a[0])) and a[0] != round(a[0]):
            raise Ambiguous('floor near integer')
        return int(f)
    if k == z3.Z3_OP_IS_INT:
        return close(a[0], round(a[0]))
    if k in (z3.Z3_OP_EQ, z3.Z3_OP_IFF) if hasattr(z3, 'Z3_OP_IFF') else k == z3.Z3_OP_EQ:
        if isinstance(a[0], bool) or isinstance(a[1], bool):
            return bool(a[0]) == bool(a[1])
        if close(a[0], a[1]):
            return True
        # a sum whose terms cancel: judge the residue against the size of the terms, not of the (tiny) result
        scale = 0.0
        for side in t.children():
            if z3.is_app_of(side, z3.Z3_OP_ADD):
                scale = max(scale, sum(abs(zeval(x, env, cache)) for x in side.children()))
        return scale > 0 and abs(a[0] - a[1]) <= 1e-7 * scale
    if k == z3.Z3_OP_DISTINCT:
        return all(not close(x, y) for i, x in enumerate(a) for y in a[i + 1:])
    if k in (z3.Z3_OP_LE, z3.Z3_OP_LT, z3.Z3_OP_GE, z3.Z3_OP_GT):
        x, y = a
        if close(x, y) and x != y:
            raise Ambiguous('comparison near boundary')
        if k == z3.Z3_OP_LE:
            return x <= y
        if k == z3.Z3_OP_LT:
            return x < y
        if k == z3.Z3_OP_GE:
            return x >= y
        return x > y
    raise Unevaluable(f'operator {d.name()}')
