"""Abstract (unbounded) sequences, sets and dictionaries: the sequence layer (DESIGN Part II 3.2/3.4, built as Part I.11).

An abstract list `AL` has a symbolic index domain [0, n), a *generic index* constant `kvar`, a presence formula over
`kvar` (filters) and a structured value over `kvar` (the element contributed by that index).  Operations on the list are
carried out ONCE on the generic element (nested exploration, merged), which is the proof rule

        for arbitrary k in [0, n):  body(elem(k)) has property P(k)          =>        for all k: P(k)

i.e. the loop-invariant rule for map/filter-shaped loops with the invariant "the first k outputs are related to the first k
inputs by P", whose inductive step is exactly the body on an arbitrary element.  Comprehensions, `any/all/in/len/sum/sorted/
set/dict/enumerate/index/sort` are given their list semantics as quantified formulas over the index domain; symbols that
the semantics introduces (counts, first/last matching index, sorting permutation, sums) are Skolem *functions* of the
generic indices in scope, characterised by axioms that are assumed on the path (listed in `AXIOMS_DOC`).

Soundness notes:
  * a comprehension body is evaluated once at creation (Python evaluates it once per element, in order): bodies with side
    effects on anything but their own fresh objects are outside the subset (the frozen-element check reports them);
  * exceptions raised by a body are raised for the FIRST offending index (least-index Skolem constant);
  * facts assumed while evaluating a generic element are exported universally quantified over the generic index.
"""
from __future__ import annotations
import copy
import z3
from .values import (CTX, PyRaise, OutOfSubset, Infeasible, SNum, SBool, SLabel, SChoice, ClassVal, Inst, FunctionVal, BoundMethod,
                     PartialVal, ModuleVal, Opaque, IDict, ISet, Builtin, AbstractCall, explore, force, lift, zbool, label_term, to_real)
from . import ops
from .ops import truth, eq_value, raise_py
from .abstract import AList

AXIOMS_DOC = [
    'count(filter): 0 <= c <= n; c = 0 <=> no index present; c = n <=> every index present; c >= 2 <=> two distinct indices present',
    'card(set of list): 0 <= c <= count; c = count <=> elements at distinct present indices are different; c = 0 <=> count = 0',
    'positional view of a filtered list: strictly increasing embedding iota of [0,count) onto the present indices (with inverse)',
    'sorted(): a permutation pi of [0,m) (with inverse), keys non-decreasing along pi, equal keys keep their order (stability)',
    'list(set)/iteration of a set: an arbitrary permutation of the first occurrences (no order assumed)',
    'first/last matching index: least/greatest index with the property (Skolem constant with minimality fact)',
    'sum(): uninterpreted S with S = 0 if all terms are 0, S = term(0) if n = 1; two sums over the same domain are equal if their '
    'terms are pointwise equal (extensionality, instantiated on demand at goal time)',
]

GENERIC = []          # generic index constants in scope (innermost last)
CNT_MEMO = {}
ABSENT = object()


def I():
    from .builtins_ import interp_ref
    return interp_ref[0]


def sk_int(stem):
    """Fresh integer Skolem symbol: a function of the generic indices in scope."""
    name = CTX.fresh(stem)
    if not GENERIC:
        return z3.Int(name)
    f = z3.Function(name, *([z3.IntSort()] * len(GENERIC)), z3.IntSort())
    return f(*GENERIC)


def sk_real(stem):
    name = CTX.fresh(stem)
    if not GENERIC:
        return z3.Real(name)
    f = z3.Function(name, *([z3.IntSort()] * len(GENERIC)), z3.RealSort())
    return f(*GENERIC)


def sk_fun(stem, rng=None):
    """Fresh function Int -> Int (or given range) that additionally depends on the generic indices in scope."""
    name = CTX.fresh(stem)
    rng = rng or z3.IntSort()
    f = z3.Function(name, *([z3.IntSort()] * (len(GENERIC) + 1)), rng)
    outer = list(GENERIC)
    return lambda t: f(*outer, t)


def fresh_index(stem='k'):
    return z3.Int(CTX.fresh(stem))


# ------------------------------------------------------------------------------------------------
# substitution in structured values


def subst(v, pairs):
    if v is None or isinstance(v, (bool, int, float, complex, str)):
        return v
    if isinstance(v, SNum):
        r = SNum(z3.substitute(v.re, *pairs), None if v.im is None else z3.substitute(v.im, *pairs),
                 None if v.tag is None else z3.substitute(v.tag, *pairs), v.np, v.bigsum)
        if v.absof is not None:
            r.absof = tuple(z3.substitute(t, *pairs) for t in v.absof)
        return r
    if isinstance(v, SBool):
        return SBool(z3.substitute(v.t, *pairs))
    if isinstance(v, SLabel):
        return SLabel(z3.substitute(v.t, *pairs))
    if isinstance(v, SChoice):
        return SChoice([(z3.substitute(c, *pairs), subst(x, pairs)) for c, x in v.alts])
    if isinstance(v, Inst):
        r = Inst(v.cls, {k: subst(x, pairs) for k, x in v.attrs.items()})
        return r
    if isinstance(v, IDict):
        r = IDict()
        r.items_ = [(subst(k, pairs), subst(x, pairs)) for k, x in v.items_]
        return r
    if isinstance(v, list):
        return [subst(x, pairs) for x in v]
    if isinstance(v, tuple):
        return tuple(subst(x, pairs) for x in v)
    if isinstance(v, ISet):
        r = ISet()
        r.elems = [subst(x, pairs) for x in v.elems]
        return r
    if isinstance(v, AL):
        v.n      # materialise a derived list
        r = copy.copy(v)
        r.members = r.len_of = None
        r.n = z3.substitute(v.n, *pairs)
        r.present = z3.substitute(v.present, *pairs)
        r.value = subst(v.value, pairs)
        r.cache = {}
        r._cnt = None
        return r
    if isinstance(v, ASet):
        return ASet(subst(v.al, pairs))
    if isinstance(v, ADict):
        return ADict(subst(v.al, pairs))
    if isinstance(v, AbstractCall):
        return AbstractCall(v.name, {k: subst(x, pairs) for k, x in v.args.items()})
    if isinstance(v, (ClassVal, ModuleVal, Builtin, Opaque)):
        return v
    if isinstance(v, (FunctionVal, BoundMethod, PartialVal)):
        raise OutOfSubset('function value inside an element of an abstract sequence')
    from .arrays import AArr
    if isinstance(v, AArr):
        r = v.copy()
        r.data[:] = [subst(x, pairs) for x in r.data]
        return r
    raise OutOfSubset(f'substitution in {type(v).__name__}')


def freeze(v, memo=None):
    """Mark the mutable containers inside an element of an abstract INPUT list: mutating them is a frame violation."""
    if isinstance(v, IDict):
        v.frozen = True
        for k, x in v.items_:
            freeze(x)
    elif isinstance(v, (list, tuple)):
        for x in v:
            freeze(x)
    elif isinstance(v, Inst):
        for x in v.attrs.values():
            freeze(x)
    elif isinstance(v, SChoice):
        for _, x in v.alts:
            freeze(x)
    return v


# ------------------------------------------------------------------------------------------------
# generic evaluation


def generic_eval(kvar, guards, thunk):
    """Run `thunk` (which reads elements at the generic index kvar) on every feasible path under `guards`.

    -> list of (z3 Bool local condition, kind, value).  Facts assumed inside are exported to the enclosing path as
    ForAll kvar. guards /\\ decisions => fact."""
    outer = CTX.path
    GENERIC.append(kvar)
    try:
        outs = explore(thunk, base=outer.all_conds() + list(guards), want_local_conds='collect')
    finally:
        GENERIC.pop()
    seen = set()
    res = []
    for o in outs:
        for dec, fact in o.facts:
            body = z3.Implies(z3.And(*(list(guards) + dec)), fact) if (guards or dec) else fact
            q = z3.ForAll([kvar], body)
            if q.get_id() not in seen:
                seen.add(q.get_id())
                CTX.path.assume(q)
        res.append((z3.And(*o.conds) if o.conds else z3.BoolVal(True), o.kind, o.value))
    return res


def merged(alts):
    alts = [(z3.simplify(c), v) for c, v in alts]
    if not alts:
        return None
    return ops.merge(alts)


def as_bool_term(v):
    v = force_nofork(v)
    if isinstance(v, bool):
        return z3.BoolVal(v)
    if isinstance(v, SBool):
        return v.t
    raise OutOfSubset('boolean expected in a quantified formula, got ' + type(v).__name__)


def force_nofork(v):
    if isinstance(v, SChoice):
        if all(isinstance(x, (bool, SBool)) for _, x in v.alts):
            return SBool(z3.Or(*[z3.And(c, zbool(x)) for c, x in v.alts]))
        raise OutOfSubset('choice value in a quantified formula')
    return v


def forall_k(kvar, guards, body):
    return z3.ForAll([kvar], z3.Implies(z3.And(*guards), body)) if guards else z3.ForAll([kvar], body)


def exists_k(kvar, guards, body):
    return z3.Exists([kvar], z3.And(*(list(guards) + [body])))


# ------------------------------------------------------------------------------------------------


class AL(AList):
    """Abstract list.  n: z3 Int; kvar: z3 Int const; present: z3 Bool over kvar; value: structure over kvar."""

    def __init__(self, n, kvar, present, value, origin=''):
        self.n = n
        self.kvar = kvar
        self.present = z3.simplify(present) if not isinstance(present, bool) else z3.BoolVal(present)
        self.value = value
        self._init_rest(origin)

    def _init_rest(self, origin):
        self.origin = origin
        self.cache = {}
        self._cnt = None
        self.frozen_input = False
        self.bag_of = None
        self.ascending = None    # 'strict' / 'weak': the (scalar) elements are known to be in ascending order of position
        self.distinct = False    # no two present positions hold equal elements (known by construction)
        self.members = None      # lists whose elements, as a set, are exactly this list's elements (order/multiplicity-insensitive queries)
        self.len_of = None       # thunk -> z3 Int: the length, when it is known without a positional view
        self._lazy = None
        self._dense = None

    @classmethod
    def derived(cls, origin, members, len_of, materialise, dense=True):
        """A list defined from others (sorted, permuted, positional view...).  Its positional structure (n, kvar, present,
        value) is only built, together with the Skolem functions and axioms it needs, when an element is accessed."""
        self = cls.__new__(cls)
        self._init_rest(origin)
        self.members, self.len_of, self._lazy, self._dense = members, len_of, materialise, dense
        # views of ONE list (sorted / permuted / positional) keep the property "no two positions hold equal elements"
        self.distinct = len(members) == 1 and getattr(members[0], 'distinct', False)
        self.bag_of = None       # a list with the same elements and multiplicities (this one is a reordering / positional view of it)
        return self

    def __getattr__(self, name):
        if name in ('n', 'kvar', 'present', 'value') and self.__dict__.get('_lazy') is not None:
            lazy, self._lazy = self._lazy, None
            src = lazy()
            self.n, self.kvar, self.present, self.value = src.n, src.kvar, src.present, src.value
            for extra in ('perm', 'embedding'):
                if hasattr(src, extra):
                    setattr(self, extra, getattr(src, extra))
            return self.__dict__[name]
        raise AttributeError(name)

    def __repr__(self):
        return f'<abstract list: {self.origin}>'

    # -- basics
    @property
    def void(self):
        """No element can exist on this path (the generic element was infeasible, e.g. the length is 0)."""
        if self.members is not None and self.__dict__.get('_lazy') is not None:
            return all(m.void for m in self.members)
        return self.value is None

    @property
    def dense(self):
        if self._dense is not None and self.__dict__.get('_lazy') is not None:
            return self._dense
        return z3.is_true(self.present)

    @property
    def length(self):
        return self.len_term()

    def rng(self, k):
        return [k >= 0, k < self.n]

    def guards(self, k):
        g = self.rng(k)
        if not self.dense:
            g.append(z3.substitute(self.present, (self.kvar, k)))
        return g

    def get(self, k):
        """-> (presence term, value) at index term k."""
        key = k.get_id()
        hit = self.cache.get(key)
        if hit is not None and hit[0].eq(k):
            return hit[1], hit[2]
        pairs = [(self.kvar, k)]
        p = z3.substitute(self.present, *pairs)
        v = subst(self.value, pairs)
        if self.frozen_input:
            freeze(v)
        self.cache[key] = (k, p, v)
        return p, v

    def len_term(self):
        if self.void:
            return z3.IntVal(0)
        if self.len_of is not None:
            if self._cnt is None:
                self._cnt = self.len_of()
            return self._cnt
        if self.dense:
            return self.n
        if self._cnt is None:
            # the count is a function of (domain, presence predicate): lists with the same filter share the symbol
            canon = z3.Int('k!canon')
            key = (self.n.sexpr(), z3.substitute(self.present, (self.kvar, canon)).sexpr(), tuple(g.get_id() for g in GENERIC))
            if key in CNT_MEMO:
                self._cnt = CNT_MEMO[key]
                return self._cnt
            c = sk_int('cnt')
            CNT_MEMO[key] = c
            k, k2 = fresh_index(), fresh_index()
            P = lambda t: z3.substitute(self.present, (self.kvar, t))
            CTX.path.assume(z3.And(c >= 0, c <= self.n))
            CTX.path.assume((c == 0) == forall_k(k, self.rng(k), z3.Not(P(k))))
            CTX.path.assume((c == self.n) == forall_k(k, self.rng(k), P(k)))
            CTX.path.assume((c >= 2) == z3.Exists([k, k2], z3.And(k >= 0, k < k2, k2 < self.n, P(k), P(k2))))
            self._cnt = c
        return self._cnt

    def len_value(self):
        return SNum(self.len_term())

    # -- construction helpers
    def mapfilter(self, fn, origin='comprehension'):
        """fn(element) -> value or ABSENT; evaluated once on the generic element.  Exceptions are raised for the first
        offending index."""
        if self.void:
            return AL(z3.IntVal(0), fresh_index('g'), True, None, origin)
        if self.__dict__.get('_lazy') is not None and (self.members is not None or self.bag_of is not None):
            # a comprehension over a view (sorted / permuted / positional / distinct / concatenated) of other lists: as a SET it is
            # the union of the comprehension over the lists the view draws from, as a BAG the comprehension over the list it
            # reorders; its positional structure (through the permutation) is only built if an element is indexed
            mem = [m.mapfilter(fn, origin) for m in self.members] if self.members is not None else None
            bag = None
            if self.bag_of is not None:
                bag = mem[0] if (mem is not None and len(self.members) == 1 and self.members[0] is self.bag_of) else self.bag_of.mapfilter(fn, origin)
            out = AL.derived(origin + ' over ' + self.origin, mem if mem is not None else [bag], (bag.len_term if bag is not None else None),
                             lambda: self._mapfilter_positional(fn, origin), dense=None)
            out.bag_of = bag
            probe = bag if bag is not None else (mem[0] if mem else None)
            out.distinct = bool(self.distinct and probe is not None and getattr(probe, 'pure_filter', False))
            out.pure_filter = bool(probe is not None and getattr(probe, 'pure_filter', False))
            out.ascending = self.ascending if out.pure_filter else None
            return out
        return self._mapfilter_positional(fn, origin)

    def _mapfilter_positional(self, fn, origin='comprehension'):
        if self.void:
            return AL(z3.IntVal(0), fresh_index('g'), True, None, origin)
        k = fresh_index('g')
        p, x = self.get(k)
        guards = self.guards(k)
        outs = generic_eval(k, guards, lambda: fn(x))
        rets = [(c, v) for c, kind, v in outs if kind == 'ret' and v is not ABSENT]
        excs = [(c, v) for c, kind, v in outs if kind == 'exc']
        if excs:
            self._raise_first(k, guards, excs)
        present = z3.And(p, z3.Or(*[c for c, _ in rets])) if rets else z3.BoolVal(False)
        if len(rets) == len(outs) and not excs:
            # no filter inside fn: presence is inherited
            present = p
        value = merged(rets) if rets else None
        out = AL(self.n, k, present, value, origin)
        if present is p and not self.dense:
            out.len_of = self.len_term       # a pure map keeps the length
        if rets and all(v is x for _, v in rets):
            out.distinct = self.distinct     # a pure filter of a duplicate-free list is duplicate-free
            out.ascending = self.ascending   # ... and of an ascending list ascending
            out.pure_filter = True
        return out

    def _raise_first(self, k, guards, excs):
        E = z3.Or(*[c for c, _ in excs])
        some = exists_k(k, guards, E)
        if CTX.path.branch(some):
            k0 = sk_int('first_exc')
            sub = lambda t, at: z3.substitute(t, (k, at))
            CTX.path.assume(z3.And(*[sub(g, k0) for g in guards] + [sub(E, k0)]))
            j = fresh_index()
            CTX.path.assume(forall_k(j, [j >= 0, j < k0], z3.Not(z3.And(*[sub(g, j) for g in guards] + [sub(E, j)]))))
            for c, exc in excs[:-1]:
                if CTX.path.branch(sub(c, k0)):
                    raise PyRaise(subst(exc, [(k, k0)]))
            c, exc = excs[-1]
            CTX.path.assume(sub(c, k0))
            raise PyRaise(subst(exc, [(k, k0)]))

    def positional(self):
        """Dense view: strictly increasing embedding of [0, count) onto the present indices."""
        if self.dense:
            return self
        if self.__dict__.get('_pos') is not None:
            return self._pos
        self._pos = AL.derived(self.origin + ' (positional)', [self], self.len_term, self._positional_now)
        self._pos.bag_of = self
        self._pos.ascending = self.ascending
        return self._pos

    def _positional_now(self):
        m = self.len_term()
        iota, rho = sk_fun('iota'), sk_fun('rho')
        P = lambda t: z3.substitute(self.present, (self.kvar, t))
        j, j2, k = fresh_index(), fresh_index(), fresh_index()
        CTX.path.assume(forall_k(j, [j >= 0, j < m], z3.And(iota(j) >= 0, iota(j) < self.n, P(iota(j)), rho(iota(j)) == j)))
        CTX.path.assume(forall_k(j, [j >= 0], z3.ForAll([j2], z3.Implies(z3.And(j < j2, j2 < m), iota(j) < iota(j2)))))
        CTX.path.assume(forall_k(k, self.rng(k) + [P(k)], z3.And(rho(k) >= 0, rho(k) < m, iota(rho(k)) == k)))
        g = fresh_index('g')
        out = AL(m, g, True, subst(self.value, [(self.kvar, iota(g))]), self.origin + ' (positional)')
        out.embedding = (self, iota, rho)
        if self.ascending:
            # the filtered list was in ascending order, so is its positional view (stated directly: the solver would have to
            # chain the embedding with the sorting permutation(s) underneath)
            vi, vj = subst(self.value, [(self.kvar, iota(j))]), subst(self.value, [(self.kvar, iota(j2))])
            rel = as_bool_term(ops.compare('<' if self.ascending == 'strict' else '<=', force_nofork_scalar(vi), force_nofork_scalar(vj)))
            CTX.path.assume(z3.ForAll([j, j2], z3.Implies(z3.And(j >= 0, j < j2, j2 < m), rel)))
        return out

    def permuted(self, why):
        """Dense list with the same elements in an order given by a fresh permutation (no order facts)."""
        out = AL.derived(why, [self], self.len_term, lambda: self._permuted_now(why))
        out.bag_of = self
        return out

    def _permuted_now(self, why):
        src = self.positional()
        m = src.n
        pi, sigma = sk_fun('pi'), sk_fun('sigma')
        i = fresh_index()
        CTX.path.assume(forall_k(i, [i >= 0, i < m], z3.And(pi(i) >= 0, pi(i) < m, sigma(pi(i)) == i, sigma(i) >= 0, sigma(i) < m, pi(sigma(i)) == i)))
        g = fresh_index('g')
        out = AL(m, g, True, subst(src.value, [(src.kvar, pi(g))]), why)
        out.perm = (src, pi, sigma)
        return out

    def first_occurrences(self):
        """Sub-list of the elements that do not occur at an earlier present index (the distinct elements, in order)."""
        if self.__dict__.get('_fo') is None:
            self._fo = AL.derived(self.origin + ' (distinct)', [self], ASet(self).card_term, self._first_occurrences_now, dense=False)
            self._fo.distinct = True
        return self._fo

    def _first_occurrences_now(self):
        k, j = self.kvar, fresh_index()
        pj, vj = self.get(j)
        e = eq_nofork(vj, self.value)
        earlier = z3.Exists([j], z3.And(j >= 0, j < k, pj, e))
        out = AL(self.n, k, z3.And(self.present, z3.Not(earlier)), self.value, self.origin + ' (distinct)')
        # every element has a first occurrence (well-ordering of the indices; the solver cannot derive it)
        fo = sk_fun('firstocc')
        i = fresh_index()
        pi_, vi = self.get(i)
        pf, vf = out.get(fo(i))
        CTX.path.assume(forall_k(i, self.rng(i) + [pi_], z3.And(fo(i) >= 0, fo(i) <= i, pf, eq_nofork(vf, vi))))
        return out

    # -- queries
    def quant(self, fn, universal):
        if self.members is not None:
            parts = [m.quant(fn, universal) for m in self.members]
            return ops.s_and(*parts) if universal else ops.s_or(*parts)
        if self.void:
            return universal
        k = fresh_index('q')
        p, x = self.get(k)
        guards = self.guards(k)
        outs = generic_eval(k, guards, lambda: fn(x))
        terms = []
        for c, kind, v in outs:
            if kind == 'exc':
                terms.append((c, z3.BoolVal(False)))      # an undefined statement does not hold
            else:
                terms.append((c, as_bool_term(v)))
        body = z3.Or(*[z3.And(c, t) for c, t in terms]) if terms else z3.BoolVal(universal)
        return SBool(forall_k(k, guards, body) if universal else exists_k(k, guards, body))

    def forall(self, pred):
        return self.quant(lambda x: as_truth(I().call(pred, [x], {})), True)

    def exists(self, pred):
        return self.quant(lambda x: as_truth(I().call(pred, [x], {})), False)

    def any_(self):
        return self.quant(lambda x: truth(x), False)

    def all_(self):
        return self.quant(lambda x: truth(x), True)

    def contains(self, x):
        return self.quant(lambda e: eq_value(e, x), False)

    def getitem(self, idx):
        idx = force(idx)
        if isinstance(idx, slice) or isinstance(idx, tuple):
            raise OutOfSubset('slice of an abstract sequence')
        if self.void:
            raise_py('IndexError', 'list index out of range')
        src = self.positional()
        if isinstance(idx, bool):
            idx = int(idx)
        if isinstance(idx, int):
            t = z3.IntVal(idx) if idx >= 0 else src.n + idx
        elif isinstance(idx, SNum) and idx.is_int:
            t = idx.re
            if not CTX.path.branch(t >= 0):
                t = src.n + t
        else:
            raise OutOfSubset('index of an abstract sequence: ' + type(idx).__name__)
        if not CTX.path.branch(z3.And(t >= 0, t < src.n)):
            raise_py('IndexError', 'list index out of range')
        return src.get(z3.simplify(t))[1]

    def index_of(self, x):
        """list.index(x): least position with an equal element; ValueError if there is none."""
        if self.void:
            raise_py('ValueError', 'x is not in list')
        src = self.positional()
        k = fresh_index('q')
        _, e = src.get(k)
        outs = generic_eval(k, src.rng(k), lambda: eq_value(e, x))
        E = z3.Or(*[z3.And(c, as_bool_term(v)) for c, kind, v in outs if kind == 'ret'])
        if not CTX.path.branch(exists_k(k, src.rng(k), E)):
            raise_py('ValueError', 'x is not in list')
        k0 = sk_int('index')
        sub = lambda t, at: z3.substitute(t, (k, at))
        j = fresh_index()
        CTX.path.assume(z3.And(k0 >= 0, k0 < src.n, sub(E, k0)))
        CTX.path.assume(forall_k(j, [j >= 0, j < k0], z3.Not(sub(E, j))))
        return SNum(k0)

    def attr(self, interp, name):
        if name == 'sort':
            def do_sort(args, kw):
                if self.frozen_input:
                    note_frame_violation('in-place sort of an input list')
                old = self.clone()
                old.__dict__.pop('_pos', None), old.__dict__.pop('_fo', None)
                new = sorted_(old, kw.get('key'), truth(kw.get('reverse', False)))
                for k in ('n', 'kvar', 'present', 'value', '_pos', '_fo', 'perm', 'embedding'):
                    self.__dict__.pop(k, None)
                self.__dict__.update({k: v for k, v in new.__dict__.items() if k != 'frozen_input'})
                self.cache = {}
                return None
            return Builtin('list.sort', do_sort)
        if name == 'index':
            return Builtin('list.index', lambda args, kw: self.index_of(args[0]))
        if name == 'copy':
            return Builtin('list.copy', lambda args, kw: self.clone())
        if name == 'count':
            return Builtin('list.count', lambda args, kw: SNum(self.mapfilter(lambda e: e if truth(eq_value(e, args[0])) else ABSENT).len_term()))
        if name in ('append', 'extend', 'insert', 'remove', 'pop', 'clear', 'reverse', '__setitem__', '__delitem__'):
            if self.frozen_input:
                note_frame_violation(f'list.{name} on an input list')
            raise OutOfSubset(f'list.{name} on an abstract sequence')
        raise_py('AttributeError', f"'list' object has no attribute {name!r}")

    def clone(self):
        r = copy.copy(self)
        r.cache = {}
        r.frozen_input = False
        return r


def as_truth(v):
    v = force(v)
    if isinstance(v, (bool, SBool)):
        return v
    return truth(v)


def eq_nofork(a, b):
    """z3 Bool for value equality of two structures without forking the path."""
    e = eq_value(a, b)
    return z3.BoolVal(e) if isinstance(e, bool) else zbool(e)


FRAME_NOTES = []


def note_frame_violation(what):
    """A mutation of an element of an abstract input list.  Recorded with the condition under which it happens."""
    conds = list(CTX.path.all_conds())
    FRAME_NOTES.append((what, z3.And(*conds) if conds else z3.BoolVal(True), list(GENERIC)))


def frame_clause():
    """z3 Bool: no recorded mutation of an input element is reachable."""
    terms = []
    for what, cond, gens in FRAME_NOTES:
        terms.append(z3.Not(z3.Exists(gens, cond)) if gens else z3.Not(cond))
    return z3.And(*terms) if terms else z3.BoolVal(True)


# ------------------------------------------------------------------------------------------------


class ASet:
    """Set of the elements of an abstract list."""

    def __init__(self, al):
        self.al = al
        self._card = None

    def card_term(self):
        if self._card is None and getattr(self.al, 'distinct', False):
            self._card = self.al.len_term()        # no duplicates by construction
        if self._card is None:
            al = self.al
            c = sk_int('card')
            cnt = al.len_term()
            k, j = fresh_index(), fresh_index()
            pk, vk = al.get(k)
            pj, vj = al.get(j)
            e = eq_nofork(vk, vj)
            inj = z3.ForAll([k, j], z3.Implies(z3.And(k >= 0, k < j, j < al.n, pk, pj), z3.Not(e)))
            CTX.path.assume(z3.And(c >= 0, c <= cnt))
            CTX.path.assume((c == cnt) == inj)
            CTX.path.assume((c == 0) == (cnt == 0))
            self._card = c
        return self._card

    def len_value(self):
        return SNum(self.card_term())

    @property
    def length(self):
        return self.card_term()

    def contains(self, x):
        return self.al.contains(x)

    def forall(self, pred):
        return self.al.forall(pred)

    def exists(self, pred):
        return self.al.exists(pred)

    def attr(self, interp, name):
        if name == 'union':
            def union(args, kw):
                out = self
                for a in args:
                    out = ASet(concat(out.al, as_al(a)))
                return out
            return Builtin('set.union', union)
        if name == 'copy':
            return Builtin('set.copy', lambda a, k: ASet(self.al))
        if name in ('issubset', 'issuperset'):
            def sub(args, kw):
                other = force(args[0])
                a, b = (self, other) if name == 'issubset' else (other, self)
                return subset(a, b)
            return Builtin('set.' + name, sub)
        raise OutOfSubset(f'set.{name} on an abstract set')


def subset(a, b):
    al = as_al(a)
    return al.quant(lambda e: contains_any(b, e), True)


def contains_any(c, x):
    c = force(c)
    if isinstance(c, (AL, ASet, ADict)):
        return c.contains(x)
    return I().contains(c, x)


class ADict:
    """Dictionary built from an abstract list of (key, value) pairs; later pairs win."""

    def __init__(self, al):
        self.al = al
        self._keys = None
        self.index_map_of = None      # a duplicate-free positional list L when this dictionary is {L[i]: i}

    def _positions(self):
        L = self.index_map_of
        return L if (L is not None and L.distinct) else None

    def keys_al(self):
        if self._positions() is not None:
            return self._positions().clone()
        if self._keys is None:
            pairs = self.al
            keys = AL(pairs.n, pairs.kvar, pairs.present, pairs.value[0] if isinstance(pairs.value, tuple) else None, 'dict keys')
            self._keys = keys.first_occurrences()
        return self._keys

    def len_value(self):
        return SNum(self.keys_al().len_term())

    @property
    def length(self):
        return self.keys_al().len_term()

    def contains(self, key):
        if self.index_map_of is not None:
            return self.index_map_of.contains(key)
        return self.al.quant(lambda kv: eq_value(kv[0], key), False)

    def getitem(self, key):
        L = self._positions()
        if L is not None:
            if not truth(L.contains(key)):
                raise_py('KeyError', key)
            i0 = sk_int('position')
            CTX.path.assume(z3.And(i0 >= 0, i0 < L.n, eq_nofork(L.get(i0)[1], key)))
            return SNum(i0)
        pairs = self.al
        if pairs.void:
            raise_py('KeyError', key)
        k = fresh_index('q')
        p, kv = pairs.get(k)
        guards = pairs.guards(k)
        outs = generic_eval(k, guards, lambda: eq_value(kv[0], key))
        E = z3.Or(*[z3.And(c, as_bool_term(v)) for c, kind, v in outs if kind == 'ret'])
        if not CTX.path.branch(exists_k(k, guards, E)):
            raise_py('KeyError', key)
        k0 = sk_int('lookup')
        sub = lambda t, at: z3.substitute(t, (k, at))
        j = fresh_index()
        CTX.path.assume(z3.And(*[sub(g, k0) for g in guards] + [sub(E, k0)]))
        CTX.path.assume(forall_k(j, [j > k0, j < pairs.n], z3.Not(z3.And(*[sub(g, j) for g in guards] + [sub(E, j)]))))
        return pairs.get(k0)[1][1]

    def values_al(self):
        L = self._positions()
        if L is not None:
            g = fresh_index('g')
            out = AL(L.n, g, True, SNum(g), 'positions')
            out.distinct = True
            return out
        keys = self.keys_al()
        k = keys.kvar
        # value stored under the key first seen at index k: the value of the LAST pair with that key
        j = fresh_index()
        pj, kvj = self.al.get(j)
        _, kvk = self.al.get(k)
        last = sk_fun('lastkey')
        e = eq_nofork(kvj[0], kvk[0])
        CTX.path.assume(forall_k(k, keys.guards(k), z3.And(last(k) >= k, last(k) < self.al.n,
                                                        z3.substitute(z3.And(pj, e), (j, last(k))),
                                                        z3.ForAll([j], z3.Implies(z3.And(j > last(k), j < self.al.n, pj), z3.Not(e))))))
        return AL(keys.n, k, keys.present, subst(self.al.value[1], [(self.al.kvar, last(k))]), 'dict values')

    def attr(self, interp, name):
        if name == 'keys':
            return Builtin('dict.keys', lambda a, k: self.keys_al())
        if name == 'values':
            return Builtin('dict.values', lambda a, k: self.values_al())
        if name == 'get':
            def get(args, kw):
                if truth(self.contains(args[0])):
                    return self.getitem(args[0])
                return args[1] if len(args) > 1 else None
            return Builtin('dict.get', get)
        raise OutOfSubset(f'dict.{name} on an abstract dictionary')


# ------------------------------------------------------------------------------------------------
# entry points used by the interpreter and the builtins


def as_al(x):
    x = force(x)
    if isinstance(x, AL):
        return x
    if isinstance(x, ASet):
        return x.al
    if isinstance(x, ADict):
        return x.keys_al()
    if isinstance(x, (list, tuple)):
        return from_concrete(list(x))
    if isinstance(x, ISet):
        return from_concrete(list(x.elems))
    raise OutOfSubset('abstract sequence expected, got ' + type(x).__name__)


def from_concrete(xs):
    k = fresh_index('g')
    if not xs:
        return AL(z3.IntVal(0), k, True, None, 'concrete []')
    alts = [(k == i, x) for i, x in enumerate(xs[:-1])] + [(k >= len(xs) - 1, xs[-1])]
    return AL(z3.IntVal(len(xs)), k, True, merged(alts), 'concrete list')


def concat(a, b):
    a, b = as_al(a), as_al(b)
    out = AL.derived('concatenation', [a, b], lambda: a.len_term() + b.len_term(), lambda: _concat_now(a, b), dense=None)
    return out


def _concat_now(a, b):
    k = fresh_index('g')
    pa, va = a.get(k)
    pb, vb = b.get(k - a.n)
    first = k < a.n
    present = z3.If(first, pa, pb)
    if a.value is None:
        value = vb
    elif b.value is None:
        value = va
    else:
        value = merged([(first, va), (z3.Not(first), vb)])
    return AL(z3.simplify(a.n + b.n), k, present, value, 'concatenation')


def make_adict(pairs, enum_src=None):
    d = ADict(pairs)
    src_list = enum_src if enum_src is not None else pairs.__dict__.get('zip_index_of')
    if src_list is not None and not pairs.void and pairs.dense and isinstance(pairs.value, tuple) and len(pairs.value) == 2:
        # {x: i for i, x in enumerate(L)} / dict(zip(L, count())): the dictionary is the position map of L
        kval, vval = pairs.value
        _, x_at = src_list.get(pairs.kvar)
        vv = force_nofork_scalar(vval)
        if isinstance(vv, SNum) and vv.is_int and z3.simplify(vv.re - pairs.kvar).eq(z3.IntVal(0)) and z3.is_true(z3.simplify(eq_nofork(kval, x_at))):
            d.index_map_of = src_list
    return d


def comprehension(interp, src, g, e, env, mod, kind):
    from .interp import Env
    src0 = force(src)
    al = as_al(src0)
    if isinstance(src0, ASet):
        al = al.first_occurrences().permuted('iteration over a set')

    def body(x):
        cenv = Env(parent=env)
        interp.assign(g.target, x, cenv, mod)
        for c in g.ifs:
            if not truth(interp.ev(c, cenv, mod)):
                return ABSENT
        if kind == 'dict':
            return (interp.ev(e.key, cenv, mod), interp.ev(e.value, cenv, mod))
        return interp.ev(e.elt, cenv, mod)
    out = al.mapfilter(body)
    if kind == 'set':
        return ASet(out)
    if kind == 'dict':
        d = make_adict(out, al.__dict__.get('enum_of'))
        return d
    return out


def bigsum(it, start=0):
    it = force(it)
    al = as_al(it)
    if isinstance(it, ASet):
        al = al.first_occurrences()      # a set holds every value once
    while al.bag_of is not None:      # a sum does not depend on the order of its terms
        al = al.bag_of
    if al.void:
        return start
    k = al.kvar
    v = al.value
    if v is None:
        return start
    v = force_nofork_num(v)
    zero = z3.RealVal(0)
    t_re = z3.If(al.present, v.rez(), zero) if not al.dense else v.rez()
    t_im = (z3.If(al.present, v.imz(), zero) if not al.dense else v.imz()) if v.im is not None else None
    if v.tag is not None:
        raise OutOfSubset('sum over possibly non-finite terms')
    s_re = sk_real('sum.re')
    s_im = sk_real('sum.im') if t_im is not None else None
    sub = lambda t, at: z3.substitute(t, (k, at))
    for s, t in ((s_re, t_re), (s_im, t_im)):
        if s is None:
            continue
        CTX.path.assume(z3.Implies(forall_k(k, al.rng(k), t == 0), s == 0))
        CTX.path.assume(z3.Implies(al.n == 1, s == sub(t, z3.IntVal(0))))
    BIGSUMS.append({'n': al.n, 'k': k, 're': (s_re, t_re), 'im': (s_im, t_im), 'generic': list(GENERIC)})
    res = SNum(s_re, s_im)
    return I().binop('+', start, res) if not (isinstance(start, int) and start == 0) else res


BIGSUMS = []


def force_nofork_num(v):
    if isinstance(v, SChoice):
        vals = [lift(x) for _, x in v.alts]
        return ops.merge([(c, l) for (c, _), l in zip(v.alts, vals)])
    return lift(v)


def extensionality_facts(solve):
    """Pairs of sums over the same index domain whose terms are pointwise equal are equal.  `solve(assertions)` -> 'unsat'..."""
    facts = []
    for a_i, A in enumerate(BIGSUMS):
        for B in BIGSUMS[a_i + 1:]:
            if A['generic'] or B['generic'] or not A['n'].eq(B['n']):
                continue
            for part in ('re', 'im'):
                (sa, ta), (sb, tb) = A[part], B[part]
                if sa is None or sb is None:
                    continue
                tb2 = z3.substitute(tb, (B['k'], A['k']))
                k = A['k']
                if solve([k >= 0, k < A['n'], ta != tb2]) == 'unsat':
                    facts.append(sa == sb)
    return facts


def sorted_(it, key=None, reverse=False):
    it = force(it)
    al = as_al(it)
    strict = False
    if isinstance(it, ASet):
        al = al.first_occurrences()
    strict = key is None and al.distinct      # distinct elements: the order is strict (a fact the solver would need induction for)
    if al.void:
        return AL(z3.IntVal(0), fresh_index('g'), True, None, 'sorted')
    if key is None and not reverse and al.ascending:
        return al.clone()          # already in ascending order: sorting is the identity
    out = AL.derived('sorted', [al], al.len_term, lambda: _sorted_now(al, key, reverse, strict))
    out.bag_of = al
    if key is None and not reverse:
        out.ascending = 'strict' if strict else 'weak'
    return out


def _sorted_now(al, key, reverse, strict):
    src = al.positional()
    m = src.n
    pi, sigma = sk_fun('pi'), sk_fun('sigma')
    i, j = fresh_index(), fresh_index()
    CTX.path.assume(forall_k(i, [i >= 0, i < m], z3.And(pi(i) >= 0, pi(i) < m, sigma(pi(i)) == i, sigma(i) >= 0, sigma(i) < m, pi(sigma(i)) == i)))
    # key of the generic element
    k = fresh_index('q')
    _, x = src.get(k)
    if key is None:
        kv = x
    else:
        outs = generic_eval(k, src.rng(k), lambda: I().call(key, [x], {}))
        if any(kind == 'exc' for _, kind, _ in outs):
            raise OutOfSubset('sort key raises ' + '; '.join(f'{v.cls.name}{v.attrs.get("args", ())}' for _, kind, v in outs if kind == 'exc'))
        kv = merged([(c, v) for c, kind, v in outs])
    kv = force_nofork_scalar(kv)
    ki, kj = subst(kv, [(k, pi(i))]), subst(kv, [(k, pi(j))])
    le = as_bool_term(ops.compare('>=' if reverse else '<=', ki, kj))
    lt = as_bool_term(ops.compare('>' if reverse else '<', ki, kj))
    same = as_bool_term(eq_value(ki, kj))
    order = z3.And(lt if strict else le, z3.Implies(same, pi(i) < pi(j)))
    CTX.path.assume(z3.ForAll([i, j], z3.Implies(z3.And(i >= 0, i < j, j < m), order)))
    g = fresh_index('g')
    out = AL(m, g, True, subst(src.value, [(src.kvar, pi(g))]), 'sorted')
    out.perm = (src, pi, sigma)
    return out


def force_nofork_scalar(v):
    if isinstance(v, SChoice):
        return ops.merge(v.alts)
    return v


def list_of_set(s):
    return s.al.first_occurrences().permuted('list(set)')


def set_of(al):
    return ASet(as_al(al))


def enumerate_(it, start=0):
    if as_al(it).void:
        return AL(z3.IntVal(0), fresh_index('g'), True, None, 'enumerate')
    src = as_al(it).positional()
    g = fresh_index('g')
    _, x = src.get(g)
    idx = SNum(g) if (isinstance(start, int) and start == 0) else I().binop('+', start, SNum(g))
    out = AL(src.n, g, True, (idx, x), 'enumerate')
    if isinstance(start, int) and start == 0:
        out.enum_of = src
    return out


class CountVal:
    """itertools.count(start, step): only usable as a partner in zip()."""
    def __init__(self, start=0, step=1):
        self.start, self.step = start, step


def zip_(its):
    finite = [i for i in its if not isinstance(i, CountVal)]
    if len(finite) != len(its):
        als = [as_al(i).positional() for i in finite]
        if any(a.void for a in als):
            return AL(z3.IntVal(0), fresh_index('g'), True, None, 'zip')
        g = fresh_index('g')
        n = als[0].n
        for a in als[1:]:
            if not a.n.eq(n):
                n = z3.If(a.n < n, a.n, n)
        vals, fin = [], iter(als)
        for i in its:
            if isinstance(i, CountVal):
                vals.append(SNum(g) if (isinstance(i.start, int) and i.start == 0 and isinstance(i.step, int) and i.step == 1)
                            else I().binop('+', i.start, I().binop('*', i.step, SNum(g))))
            else:
                vals.append(next(fin).get(g)[1])
        out = AL(z3.simplify(n), g, True, tuple(vals), 'zip')
        if len(its) == 2 and isinstance(its[1], CountVal) and isinstance(its[1].start, int) and its[1].start == 0 and its[1].step == 1:
            out.zip_index_of = als[0]
        return out
    als = [as_al(i).positional() for i in its]
    if any(a.void for a in als):
        return AL(z3.IntVal(0), fresh_index('g'), True, None, 'zip')
    g = fresh_index('g')
    n = als[0].n
    for a in als[1:]:
        if not a.n.eq(n):
            n = z3.If(a.n < n, a.n, n)
    return AL(z3.simplify(n), g, True, tuple(a.get(g)[1] for a in als), 'zip')


def product_(its, rep):
    raise OutOfSubset('itertools.product over abstract sequences')


def abstract_eq(a, b):
    a, b = force(a), force(b)
    if isinstance(a, ASet) or isinstance(b, ASet):
        return ops.s_and(subset(a, b), subset(b, a))
    if isinstance(a, ADict) or isinstance(b, ADict):
        raise OutOfSubset('equality of abstract dictionaries')
    if not isinstance(a, (AL, list, tuple)) or not isinstance(b, (AL, list, tuple)):
        return False
    a, b = as_al(a).positional(), as_al(b).positional()
    k = fresh_index('q')
    _, va = a.get(k)
    _, vb = b.get(k)
    outs = generic_eval(k, a.rng(k), lambda: eq_value(va, vb))
    body = z3.Or(*[z3.And(c, as_bool_term(v)) for c, kind, v in outs if kind == 'ret'])
    return SBool(z3.And(a.n == b.n, forall_k(k, a.rng(k), body)))


def indices(xs):
    """range(len(xs)) as an abstract list of integers."""
    xs = force(xs)
    if isinstance(xs, (AL, ASet, ADict)):
        n = as_al(xs).positional().n if not isinstance(xs, AL) else xs.positional().n
    elif isinstance(xs, SNum) and xs.is_int:
        n = xs.re
    elif isinstance(xs, int):
        n = z3.IntVal(xs)
    else:
        return list(range(len(xs)))
    g = fresh_index('g')
    return AL(n, g, True, SNum(g), 'indices')


def reset():
    CNT_MEMO.clear()
    del GENERIC[:]
    del FRAME_NOTES[:]
    del BIGSUMS[:]


# ------------------------------------------------------------------------------------------------
# for-loops over abstract sequences whose body only feeds local accumulators (the statement form of a comprehension)


def _reachable_state(roots, limit=5):
    """Identity snapshot of the mutable containers reachable from `roots`: {id: (object, tuple of child ids)}."""
    from .arrays import AArr
    seen = {}

    def walk(v, depth):
        if depth > limit or id(v) in seen:
            return
        if isinstance(v, list):
            seen[id(v)] = (v, tuple(id(x) for x in v))
            kids = list(v)
        elif isinstance(v, IDict):
            seen[id(v)] = (v, tuple((id(k), id(x)) for k, x in v.items_))
            kids = [x for _, x in v.items_]
        elif isinstance(v, ISet):
            seen[id(v)] = (v, tuple(id(x) for x in v.elems))
            kids = list(v.elems)
        elif isinstance(v, Inst):
            seen[id(v)] = (v, tuple((k, id(x)) for k, x in v.attrs.items()))
            kids = list(v.attrs.values())
        elif isinstance(v, AArr):
            seen[id(v)] = (v, tuple(id(x) for x in v.data))
            kids = []
        elif isinstance(v, tuple):
            kids = list(v)
        else:
            return
        for x in kids:
            walk(x, depth + 1)
    for r in roots:
        walk(r, 0)
    return seen


def _local_envs(env):
    out = []
    e = env
    while e is not None and e is not e.globals_:
        out.append(e)
        e = e.parent
    return out


POISON = Opaque('variable assigned inside a loop over an abstract sequence (its value after the loop is not modelled)')


def for_loop(interp, s, src, env, mod):
    from .interp import _Break, _Continue
    if s.orelse:
        raise OutOfSubset('for/else over an abstract sequence')
    src = force(src)
    al = as_al(src)
    if isinstance(src, ASet):
        al = al.first_occurrences().permuted('iteration over a set')
    if al.void:
        return
    envs = _local_envs(env)
    bindings = [dict(e.vars) for e in envs]
    roots = [v for b in bindings for v in b.values()]
    accs = []          # mutable containers bound directly to local names
    for b in bindings:
        for v in b.values():
            if isinstance(v, (list, IDict, ISet)) and not any(v is a for a in accs):
                accs.append(v)

    def content(a):
        return list(a) if isinstance(a, list) else (list(a.items_) if isinstance(a, IDict) else list(a.elems))

    def restore(a, c):
        if isinstance(a, list):
            a[:] = c
        elif isinstance(a, IDict):
            a.items_ = list(c)
        else:
            a.elems = list(c)
    saved = [content(a) for a in accs]
    before = _reachable_state(roots)
    target_names = {n.id for n in __import__('ast').walk(s.target) if isinstance(n, __import__('ast').Name)}

    k = fresh_index('g')
    p, x = al.get(k)
    guards = al.guards(k)
    new_names = set()

    def body():
        for a, c in zip(accs, saved):
            restore(a, c)
        for e, b in zip(envs, bindings):
            e.vars.clear()
            e.vars.update(b)
        interp.assign(s.target, x, env, mod)
        try:
            interp.exec_block(s.body, env, mod)
        except _Continue:
            pass
        except _Break:
            raise OutOfSubset('break in a loop over an abstract sequence')
        deltas = []
        for a, c in zip(accs, saved):
            now = content(a)
            if isinstance(a, list):
                if len(now) < len(c) or any(u is not v for u, v in zip(now, c)):
                    raise OutOfSubset('loop over an abstract sequence changes existing items of a list')
                deltas.append(tuple(now[len(c):]))
            elif isinstance(a, IDict):
                old = {id(kk): vv for kk, vv in c}
                stores = tuple((kk, vv) for kk, vv in now if id(kk) not in old or old[id(kk)] is not vv)
                if len(now) - len(stores) != len([1 for kk, vv in c if any(kk is k2 and vv is v2 for k2, v2 in now)]):
                    raise OutOfSubset('loop over an abstract sequence removes dictionary items')
                deltas.append(stores)
            else:
                if any(u is not v for u, v in zip(now, c)) or len(now) < len(c):
                    raise OutOfSubset('loop over an abstract sequence removes set elements')
                deltas.append(tuple(now[len(c):]))
            restore(a, c)
        after = _reachable_state(roots)
        for i, (obj, kids) in before.items():
            if i in after and after[i][1] != kids:
                raise OutOfSubset('loop over an abstract sequence mutates an object other than a local list / dict / set accumulator')
        for e, b in zip(envs, bindings):
            for name, v in e.vars.items():
                if name in target_names:
                    continue
                if name not in b:
                    new_names.add((id(e), name))
                elif b[name] is not v:
                    raise OutOfSubset(f'loop over an abstract sequence rebinds the variable {name!r} (loop-carried state)')
        return tuple(deltas)
    try:
        outs = generic_eval(k, guards, body)
    finally:
        for a, c in zip(accs, saved):
            restore(a, c)
        for e, b in zip(envs, bindings):
            e.vars.clear()
            e.vars.update(b)
    excs = [(c, v) for c, kind, v in outs if kind == 'exc']
    rets = [(c, v) for c, kind, v in outs if kind == 'ret']
    if excs:
        al._raise_first(k, guards, excs)
    for e in envs:
        for ide, name in new_names:
            if ide == id(e):
                e.vars[name] = POISON
        for name in target_names:
            if name in e.vars or e is env:
                pass
    for name in target_names:
        env.vars[name] = POISON
    for ai, (a, c) in enumerate(zip(accs, saved)):
        per = [(cnd, d[ai]) for cnd, d in rets]
        if all(len(d) == 0 for _, d in per):
            continue
        if any(len(d) > 1 for _, d in per):
            raise OutOfSubset('more than one append/store per iteration in a loop over an abstract sequence')
        hits = [(cnd, d[0]) for cnd, d in per if len(d) == 1]
        present = z3.And(p, z3.Or(*[cnd for cnd, _ in hits])) if len(hits) < len(per) else p
        added = AL(al.n, k, present, merged(hits), 'loop accumulator')
        if present is p and not al.dense:
            added.len_of = al.len_term
        if isinstance(a, list):
            new = concat(from_concrete(c), added) if c else added
        elif isinstance(a, IDict):
            new = ADict(concat(from_concrete([(kk, vv) for kk, vv in c]), added) if c else added)
        else:
            new = ASet(concat(from_concrete(c), added) if c else added)
        _rebind(a, new, envs, roots)


def _rebind(old, new, envs, roots):
    for e in envs:
        for name, v in list(e.vars.items()):
            if v is old:
                e.vars[name] = new
    for r in roots:
        if isinstance(r, Inst):
            for name, v in list(r.attrs.items()):
                if v is old:
                    r.attrs[name] = new



class ACounter:
    """collections.Counter of an abstract list: element -> multiplicity.  Supported: iteration over `.values()` / `.items()` (one entry
    per distinct element, with the multiplicity as an uninterpreted count characterised by ">= 1" and ">= 2 iff the element occurs
    at two positions"), `len`, lookup of a key."""

    def __init__(self, al):
        self.al = al
        self.firsts = al.first_occurrences()
        self._mult = None

    def _multiplicities(self):
        if self._mult is None:
            fo = self.firsts
            fo.n                                   # materialise
            k = fo.kvar
            mult = sk_fun('mult')
            j = fresh_index()
            pj, vj = self.al.get(j)
            _, vk = self.al.get(k)
            again = z3.Exists([j], z3.And(j >= 0, j < self.al.n, j != k, pj, eq_nofork(vj, vk)))
            CTX.path.assume(forall_k(k, fo.guards(k), z3.And(mult(k) >= 1, (mult(k) >= 2) == again)))
            self._mult = AL(fo.n, k, fo.present, SNum(mult(k)), 'multiplicities')
        return self._mult

    def len_value(self):
        return SNum(self.firsts.len_term())

    @property
    def length(self):
        return self.firsts.len_term()

    def contains(self, x):
        return self.al.contains(x)

    def attr(self, interp, name):
        if name == 'values':
            return Builtin('Counter.values', lambda a, k: self._multiplicities())
        if name == 'keys':
            return Builtin('Counter.keys', lambda a, k: self.firsts)
        if name == 'items':
            def items(a, k):
                m = self._multiplicities()
                return AL(m.n, m.kvar, m.present, (self.firsts.value, m.value), 'Counter.items')
            return Builtin('Counter.items', items)
        raise OutOfSubset(f'Counter.{name} on an abstract sequence')


def counter_of(al):
    return ACounter(al)
