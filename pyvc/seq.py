"""Abstract (unbounded) sequences and sets: MapFilter normal forms, BigSum, quantified membership (DESIGN 3.2, 3.4).

Placeholder until the sequence layer is built: every entry point reports out-of-subset, which makes the affected
obligation *undecided* (never discharged, never a violation).
"""
from __future__ import annotations
from .values import OutOfSubset
from .abstract import AList


class ASet:
    pass


def _no(*a, **k):
    raise OutOfSubset('abstract sequences are not built yet')


abstract_eq = comprehension = bigsum = sorted_ = list_of_set = set_of = enumerate_ = zip_ = product_ = concat = _no
