"""Ring-normalisation back end: decides goals that are conjunctions of equalities between rational functions of the
leaf variables by bringing lhs - rhs to a common denominator and expanding the numerator (sympy as polynomial
arithmetic engine).  Sound for the paths on which the terms were computed, because every division on a path is
guarded by a 'denominator != 0' condition of that path."""
from __future__ import annotations
import z3

try:
    import sympy
except ImportError:       # pragma: no cover
    sympy = None


class NotRing(Exception):
    pass


def to_sympy(t, syms):
    if z3.is_int_value(t):
        return sympy.Integer(t.as_long())
    if z3.is_rational_value(t):
        return sympy.Rational(t.numerator_as_long(), t.denominator_as_long())
    if not z3.is_app(t):
        raise NotRing()
    k = t.decl().kind()
    ch = t.children()
    if k == z3.Z3_OP_UNINTERPRETED:
        # constants and applications of uninterpreted functions are atoms
        key = t.sexpr()
        if key not in syms:
            syms[key] = sympy.Symbol('v%d' % len(syms), real=True)
        return syms[key]
    if k == z3.Z3_OP_ADD:
        return sympy.Add(*[to_sympy(c, syms) for c in ch])
    if k == z3.Z3_OP_SUB:
        r = to_sympy(ch[0], syms)
        for c in ch[1:]:
            r = r - to_sympy(c, syms)
        return r
    if k == z3.Z3_OP_UMINUS:
        return -to_sympy(ch[0], syms)
    if k == z3.Z3_OP_MUL:
        return sympy.Mul(*[to_sympy(c, syms) for c in ch])
    if k == z3.Z3_OP_DIV:
        return to_sympy(ch[0], syms) / to_sympy(ch[1], syms)
    if k == z3.Z3_OP_POWER and z3.is_int_value(ch[1]) or (k == z3.Z3_OP_POWER and z3.is_rational_value(ch[1]) and ch[1].denominator_as_long() == 1):
        return to_sympy(ch[0], syms) ** int(ch[1].numerator_as_long() if z3.is_rational_value(ch[1]) else ch[1].as_long())
    if k == z3.Z3_OP_TO_REAL:
        return to_sympy(ch[0], syms)
    raise NotRing()


def equalities(goal):
    """goal: z3 Bool -> list of (lhs, rhs) if it is a conjunction of equalities, else None."""
    if z3.is_and(goal):
        out = []
        for c in goal.children():
            e = equalities(c)
            if e is None:
                return None
            out += e
        return out
    if z3.is_eq(goal) and goal.arg(0).sort() in (z3.RealSort(), z3.IntSort()):
        return [(goal.arg(0), goal.arg(1))]
    if z3.is_true(goal):
        return []
    return None


def prove(goal, budget_terms=4000):
    """True if every equality of the goal is an identity of rational functions; False/None otherwise (never 'refuted')."""
    if sympy is None:
        return None
    eqs = equalities(goal)
    if eqs is None:
        return None
    syms = {}
    try:
        for l, r in eqs:
            e = to_sympy(l, syms) - to_sympy(r, syms)
            num, _den = sympy.fraction(sympy.together(e))
            if sympy.expand(num) != 0:
                return False
    except NotRing:
        return None
    return True


def _atoms(t, acc, seen=None):
    """Collect the atoms (uninterpreted constants / applications) of an arithmetic term; key = AST id (z3 hash-conses)."""
    if seen is None:
        seen = set()
    key = t.get_id()
    if key in seen:
        return
    seen.add(key)
    if z3.is_int_value(t) or z3.is_rational_value(t):
        return
    if not z3.is_app(t):
        raise NotRing()
    k = t.decl().kind()
    if k == z3.Z3_OP_UNINTERPRETED:
        acc.setdefault(key, len(acc))
        return
    if k in (z3.Z3_OP_ADD, z3.Z3_OP_SUB, z3.Z3_OP_UMINUS, z3.Z3_OP_MUL, z3.Z3_OP_DIV, z3.Z3_OP_TO_REAL):
        for c in t.children():
            _atoms(c, acc, seen)
        return
    if k == z3.Z3_OP_POWER and (z3.is_int_value(t.arg(1)) or (z3.is_rational_value(t.arg(1)) and t.arg(1).denominator_as_long() == 1)):
        _atoms(t.arg(0), acc, seen)
        return
    raise NotRing()


def _to_field(t, atoms, gens, K, memo):
    key = t.get_id()
    if key in memo:
        return memo[key]
    if z3.is_int_value(t):
        r = K(t.as_long())
    elif z3.is_rational_value(t):
        r = K(t.numerator_as_long()) / K(t.denominator_as_long())
    else:
        k = t.decl().kind()
        ch = t.children()
        if k == z3.Z3_OP_UNINTERPRETED:
            r = gens[atoms[t.get_id()]]
        elif k == z3.Z3_OP_ADD:
            r = _to_field(ch[0], atoms, gens, K, memo)
            for c in ch[1:]:
                r = r + _to_field(c, atoms, gens, K, memo)
        elif k == z3.Z3_OP_SUB:
            r = _to_field(ch[0], atoms, gens, K, memo)
            for c in ch[1:]:
                r = r - _to_field(c, atoms, gens, K, memo)
        elif k == z3.Z3_OP_UMINUS:
            r = -_to_field(ch[0], atoms, gens, K, memo)
        elif k == z3.Z3_OP_MUL:
            r = _to_field(ch[0], atoms, gens, K, memo)
            for c in ch[1:]:
                r = r * _to_field(c, atoms, gens, K, memo)
        elif k == z3.Z3_OP_DIV:
            d = _to_field(ch[1], atoms, gens, K, memo)
            if d == 0:
                raise NotRing()
            r = _to_field(ch[0], atoms, gens, K, memo) / d
        elif k == z3.Z3_OP_TO_REAL:
            r = _to_field(ch[0], atoms, gens, K, memo)
        elif k == z3.Z3_OP_POWER:
            e = ch[1]
            n = int(e.numerator_as_long() if z3.is_rational_value(e) else e.as_long())
            b = _to_field(ch[0], atoms, gens, K, memo)
            r = b ** n if n >= 0 else K(1) / (b ** (-n))
        else:
            raise NotRing()
    memo[key] = r
    return r


PRIMES = [(1 << 61) - 1, (1 << 89) - 1]
EXACT_LIMIT = 1500        # sexpr length up to which the exact field normalisation is used
STATS = {'exact': 0, 'pit': 0}


class _ZeroDiv(Exception):
    pass


def _eval_mod(t, atoms, vals, p, memo):
    key = t.get_id()
    if key in memo:
        return memo[key]
    if z3.is_int_value(t):
        r = t.as_long() % p
    elif z3.is_rational_value(t):
        d = t.denominator_as_long() % p
        if d == 0:
            raise _ZeroDiv()
        r = t.numerator_as_long() * pow(d, p - 2, p) % p
    else:
        k = t.decl().kind()
        ch = t.children()
        if k == z3.Z3_OP_UNINTERPRETED:
            r = vals[atoms[t.get_id()]]
        elif k == z3.Z3_OP_ADD:
            r = sum(_eval_mod(c, atoms, vals, p, memo) for c in ch) % p
        elif k == z3.Z3_OP_SUB:
            r = _eval_mod(ch[0], atoms, vals, p, memo)
            for c in ch[1:]:
                r = (r - _eval_mod(c, atoms, vals, p, memo)) % p
        elif k == z3.Z3_OP_UMINUS:
            r = (-_eval_mod(ch[0], atoms, vals, p, memo)) % p
        elif k == z3.Z3_OP_MUL:
            r = 1
            for c in ch:
                r = r * _eval_mod(c, atoms, vals, p, memo) % p
        elif k == z3.Z3_OP_DIV:
            d = _eval_mod(ch[1], atoms, vals, p, memo)
            if d == 0:
                raise _ZeroDiv()
            r = _eval_mod(ch[0], atoms, vals, p, memo) * pow(d, p - 2, p) % p
        elif k == z3.Z3_OP_TO_REAL:
            r = _eval_mod(ch[0], atoms, vals, p, memo)
        elif k == z3.Z3_OP_POWER:
            e = ch[1]
            n = int(e.numerator_as_long() if z3.is_rational_value(e) else e.as_long())
            b = _eval_mod(ch[0], atoms, vals, p, memo)
            if n < 0:
                if b == 0:
                    raise _ZeroDiv()
                b = pow(b, p - 2, p)
                n = -n
            r = pow(b, n, p)
        else:
            raise NotRing()
    memo[key] = r
    return r


def _pit(l, r, atoms, trials=4):
    """Schwartz-Zippel identity test: evaluate lhs - rhs at random points of Z_p (two Mersenne primes).  One-sided:
    a non-zero value refutes the identity for certain; `trials` zero values accept it with error probability
    < (degree / 2^61)^trials."""
    import random
    import zlib
    rng = random.Random(len(atoms) * 7919 + 13)
    done = 0
    attempts = 0
    while done < trials and attempts < 40:
        attempts += 1
        p = PRIMES[done % len(PRIMES)]
        vals = [rng.randrange(1, p) for _ in range(len(atoms))]
        try:
            memo = {}
            if (_eval_mod(l, atoms, vals, p, memo) - _eval_mod(r, atoms, vals, p, memo)) % p != 0:
                return False
        except _ZeroDiv:
            continue
        done += 1
    return done == trials


def is_identity(l, r):
    """lhs - rhs is the zero rational function of its atoms.  Small terms: exact normalisation in the fraction field
    Q(atoms) (sympy).  Large terms: Schwartz-Zippel test (see _pit), recorded as back end 'pit'."""
    try:
        atoms = {}
        seen = set()
        _atoms(l, atoms, seen)
        _atoms(r, atoms, seen)
    except NotRing:
        return False
    size = len(seen) * 12
    if size <= EXACT_LIMIT:
        from sympy.polys.fields import field
        from sympy.polys.domains import QQ
        try:
            if not atoms:
                import fractions
                lv = _to_field(l, atoms, [], lambda v: fractions.Fraction(v), {})
                rv_ = _to_field(r, atoms, [], lambda v: fractions.Fraction(v), {})
                return lv == rv_
            res = field(['v%d' % i for i in range(len(atoms))], QQ)
            K, gens = res[0], list(res[1:])
            memo = {}
            ok = (_to_field(l, atoms, gens, K, memo) - _to_field(r, atoms, gens, K, memo)) == 0
            if ok:
                STATS['exact'] += 1
            return ok
        except (NotRing, ZeroDivisionError):
            return False
    try:
        ok = _pit(l, r, atoms)
    except NotRing:
        return False
    if ok:
        STATS['pit'] += 1
    return ok


def simplify_goal(goal, cache=None, stats=None):
    """Replace every equality atom between arithmetic terms that is an identity of rational functions by True."""
    if sympy is None:
        return goal
    if cache is None:
        cache = {}
    key = goal.get_id()
    if key in cache:
        return cache[key]
    res = goal
    if z3.is_and(goal) or z3.is_or(goal) or z3.is_not(goal) or z3.is_implies(goal):
        ch = [simplify_goal(c, cache, stats) for c in goal.children()]
        if z3.is_and(goal):
            res = z3.And(*ch)
        elif z3.is_or(goal):
            res = z3.Or(*ch)
        elif z3.is_not(goal):
            res = z3.Not(ch[0])
        else:
            res = z3.Implies(ch[0], ch[1])
    elif z3.is_app(goal) and goal.decl().kind() == z3.Z3_OP_ITE and goal.sort() == z3.BoolSort():
        ch = [simplify_goal(c, cache, stats) for c in goal.children()]
        res = z3.If(ch[0], ch[1], ch[2])
    elif z3.is_eq(goal) and goal.arg(0).sort() in (z3.RealSort(), z3.IntSort()):
        l, r = goal.arg(0), goal.arg(1)
        if not (z3.is_rational_value(l) and z3.is_rational_value(r)):
            if is_identity(l, r):
                if stats is not None:
                    stats['identities'] = stats.get('identities', 0) + 1
                res = z3.BoolVal(True)
    cache[key] = res
    return res


def substitutions(conds):
    """Equalities `constant == numeral` among the path conditions, as a z3 substitution list."""
    subs = []
    seen = set()

    def visit(c):
        if z3.is_and(c):
            for x in c.children():
                visit(x)
        elif z3.is_eq(c):
            l, r = c.arg(0), c.arg(1)
            for a, b in ((l, r), (r, l)):
                if z3.is_const(a) and a.decl().kind() == z3.Z3_OP_UNINTERPRETED and (z3.is_rational_value(b) or z3.is_int_value(b)) and a.get_id() not in seen:
                    seen.add(a.get_id())
                    subs.append((a, b))
    for c in conds:
        visit(z3.simplify(c) if not z3.is_and(c) else c)
    return subs
