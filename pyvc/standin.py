"""Bounded stand-ins that run the REAL code under CPython (/venv/bin/python, PYTHONPATH=<repo>/src) where a function is
out of the deductive engine's reach (DESIGN sec. 6).  Labelled bounded, never counted as proved."""
from __future__ import annotations
import json
import os
import subprocess
import tempfile
from . import xcheck


def make(name, script, kinds=('failure',)):
    def group(pid, tier, seed, repo_src, verif, engine=None, **_):
        with tempfile.TemporaryDirectory(prefix='pyvc-standin-') as d:
            out = os.path.join(d, 'out.json')
            env = dict(os.environ, PYTHONPATH=repo_src + os.pathsep + verif, MPLBACKEND='Agg')
            p = subprocess.run([xcheck.NATIVE_PY, os.path.join(verif, 'standins', script), tier, str(seed), out], env=env, capture_output=True, text=True,
                               cwd=verif, timeout=3000)
            if p.returncode != 0 or not os.path.exists(out):
                raise RuntimeError(f'stand-in {name} crashed: {p.stderr[-1500:]}')
            res = json.load(open(out))
        entry = {'id': 'standin:' + name, 'bound': res.get('bound'), 'evaluations': res['evaluations'], 'distinct': res.get('distinct'),
                 'failures': res.get('n_failures', len(res.get('failures', []))), 'samples': res.get('samples', [])[:5]}
        violations = []
        if res.get('failures'):
            os.makedirs(os.path.join(verif, 'replays'), exist_ok=True)
            by_kind = {}
            for f in res['failures']:
                by_kind.setdefault(f.get('kind', 'failure'), []).append(f)
            for kind, fs in by_kind.items():
                oid = f'standin:{name}:{kind}'
                fname = os.path.join('replays', f'{pid}-standin-{name}-{kind}.json'.replace(' ', '_'))
                json.dump({'property': pid, 'obligation': oid, 'status': 'confirmed-on-real-code', 'failing_inputs': fs[:20], 'standin': name,
                           'how_to_replay': f'PYTHONPATH={repo_src} {xcheck.NATIVE_PY} standins/{script} {tier} {seed} /tmp/out.json'}, open(os.path.join(verif, fname), 'w'), indent=1)
                violations.append((oid, fname, ''))
        return {'obligations': [], 'standins': [entry], 'standin_violations': violations}
    group.__name__ = 'standin_' + name
    return group
