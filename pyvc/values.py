"""Symbolic value domain, path conditions and path exploration (DESIGN 3.2 / 3.10)."""
from __future__ import annotations
import math
from fractions import Fraction
import z3

# ----------------------------------------------------------------------------------------------
# exceptions used by the interpreter itself


class Infeasible(Exception):
    """The current path condition is unsatisfiable."""


class OutOfSubset(Exception):
    """The interpreted code left the supported subset (DESIGN 3.2): obligation status out-of-subset."""


class PathExplosion(Exception):
    pass


class PyRaise(Exception):
    """An exception raised by the *interpreted* program."""

    def __init__(self, exc):
        super().__init__(getattr(exc, 'cls', None) and exc.cls.name)
        self.exc = exc  # Inst of an exception ClassVal


# ----------------------------------------------------------------------------------------------
# context


class Ctx:
    def __init__(self):
        self.paths = []
        self.counter = 0
        self.strings = {}       # concrete str -> z3 Real const
        self.global_axioms = []  # filled by builtins_ (pi, sqrt2)
        self.set_reversed = False  # iteration order of sets: insertion order or its reverse (set order is unspecified in Python)
        self.branch_timeout_ms = 300
        self.max_paths = 4000
        self.stats = {'feas_checks': 0, 'paths': 0}

    @property
    def path(self) -> 'Path':
        if not self.paths:
            raise RuntimeError('no active path')
        return self.paths[-1]

    def fresh(self, stem: str) -> str:
        self.counter += 1
        return f'{stem}!{self.counter}'

    def string_const(self, s: str):
        c = self.strings.get(s)
        if c is None:
            c = z3.Real('str:' + s)
            self.strings[s] = c
        return c

    def string_axioms(self):
        ks = sorted(self.strings)
        return [self.strings[a] < self.strings[b] for a, b in zip(ks, ks[1:])]


CTX = Ctx()


def z3check(solver, timeout_ms):
    """solver.check().  z3's `timeout` is a soft limit (some non-linear procedures overrun it many times); interrupting the context
    from a timer thread was tried and crashes libz3 (segfault in a worker), so the hard limit is imposed one level up: every
    contract runs in a worker process and the driver abandons workers at the check's wall-clock deadline (driver.run_contracts)."""
    return solver.check()


_QCACHE = {}


def _quantified(t):
    key = t.get_id()
    hit = _QCACHE.get(key)
    if hit is not None and hit[0].eq(t):
        return hit[1]
    stack, seen, res = [t], set(), False
    while stack:
        x = stack.pop()
        if x.get_id() in seen:
            continue
        seen.add(x.get_id())
        if z3.is_quantifier(x):
            res = True
            break
        stack.extend(x.children())
    if len(_QCACHE) > 20000:
        _QCACHE.clear()
    _QCACHE[key] = (t, res)
    return res


def _feasible(conds, extra) -> bool:
    if any(_quantified(c) for c in conds) or _quantified(extra):
        # paths over abstract sequences: decide feasibility on the quantifier-free part only.  Dropping assumptions can only
        # make an infeasible path look feasible, which is sound (its obligations are then discharged from the full path
        # condition); quantified queries at every branch would be slow and mostly `unknown`.
        from . import seq
        if not seq.GENERIC:
            # outermost path: every surviving path repeats all nested work, so a short full query that can prune is worth it
            s = z3.Solver()
            s.set('timeout', CTX.branch_timeout_ms)
            s.add(*CTX.global_axioms)
            s.add(*CTX.string_axioms())
            s.add(*conds)
            s.add(extra)
            CTX.stats['feas_checks'] += 1
            if z3check(s, CTX.branch_timeout_ms) == z3.unsat:
                return False
        conds = [c for c in conds if not _quantified(c)]
        if _quantified(extra):
            return True
    s = z3.Solver()
    s.set('timeout', CTX.branch_timeout_ms)
    s.add(*CTX.global_axioms)
    s.add(*CTX.string_axioms())
    s.add(*conds)
    s.add(extra)
    CTX.stats['feas_checks'] += 1
    return z3check(s, CTX.branch_timeout_ms) != z3.unsat


class Path:
    """One execution path: a replayable list of decisions plus the accumulated condition."""

    def __init__(self, prefix=(), base=()):
        self.decisions = list(prefix)     # list of (bool value, bool forced)
        self.pos = 0
        self.base = list(base)
        self.conds = []                   # decisions taken and facts assumed, in order
        self.local = []                   # decisions only
        self.facts = []                   # (number of decisions when assumed, fact)
        self.pending = []
        self.obligations = []             # side obligations (label, z3 Bool that must hold)
        self.known = {}                   # id of a decided condition -> its value on this path
        self.pool = None                  # numeric sample points (leaf assignments) consistent with the conditions so far
        if CTX.paths:
            self.known.update(CTX.paths[-1].known)
            if CTX.paths[-1].pool is not None:
                self.pool = list(CTX.paths[-1].pool)

    def all_conds(self):
        return self.base + self.conds

    def assume(self, fact):
        if isinstance(fact, bool):
            if not fact:
                raise Infeasible()
            return
        self.conds.append(fact)
        self.facts.append((len(self.local), fact))

    def init_pool(self, leaves, n=24, seed=20261003):
        """Random leaf assignments that satisfy the conditions collected so far; used to answer 'is this branch feasible'
        without the solver whenever a sample exhibits it (never used to prune)."""
        import random
        from . import xcheck
        if any(kind == 'label' for kind, _ in leaves.values()) or not leaves:
            self.pool = None
            return
        rng = random.Random(seed)
        pool = []
        tries = 0
        while len(pool) < n and tries < n * 12:
            tries += 1
            lv = xcheck.random_leaves(leaves, rng)
            if lv is None:
                break
            try:
                env = xcheck.env_of(lv, leaves)
            except Exception:
                continue
            entry = (env, {})
            if all(self._pool_eval(c, entry) is True for c in self.all_conds()):
                pool.append(entry)
        self.pool = pool

    @staticmethod
    def _pool_eval(c, entry):
        from .zeval import zeval, Unevaluable, Ambiguous
        try:
            return bool(zeval(c, entry[0], entry[1]))
        except (Unevaluable, Ambiguous, ZeroDivisionError, OverflowError, ValueError, KeyError):
            return None

    def branch(self, cond) -> bool:
        if isinstance(cond, bool):
            return cond
        c = z3.simplify(cond)
        if z3.is_true(c):
            return True
        if z3.is_false(c):
            return False
        k = self.known.get(c.get_id())
        if k is not None and k[1].eq(c):
            return k[0]
        vals = None
        if self.pool:
            vals = [self._pool_eval(c, e) for e in self.pool]
        if self.pos < len(self.decisions):
            d, forced = self.decisions[self.pos]
        else:
            can_t = (vals is not None and any(v is True for v in vals)) or _feasible(self.all_conds(), c)
            can_f = (vals is not None and any(v is False for v in vals)) or _feasible(self.all_conds(), z3.Not(c))
            if can_t and can_f:
                d, forced = True, False
                self.pending.append(self.decisions[:self.pos] + [(False, False)])
            elif can_t:
                d, forced = True, True
            elif can_f:
                d, forced = False, True
            else:
                raise Infeasible()
            self.decisions.append((d, forced))
        self.pos += 1
        if vals is not None:
            self.pool = [e for e, v in zip(self.pool, vals) if v is d]
        self.conds.append(c if d else z3.Not(c))
        self.local.append(c if d else z3.Not(c))
        # the ASTs are stored with the verdict: an id is only meaningful while its AST is alive
        self.known[c.get_id()] = (d, c)
        neg = c.arg(0) if z3.is_not(c) else z3.Not(c)
        self.known[neg.get_id()] = (not d, neg)
        return d


class Outcome:
    __slots__ = ('conds', 'kind', 'value', 'obligations', 'facts')

    def __init__(self, conds, kind, value, obligations, facts=()):
        self.conds, self.kind, self.value, self.obligations, self.facts = conds, kind, value, obligations, facts

    def cond(self):
        return z3.And(*self.conds) if self.conds else z3.BoolVal(True)


def explore(thunk, base=(), want_local_conds=False):
    """Run `thunk` on every feasible path.  Returns a list of Outcome; kind in {'ret','exc'}.

    With want_local_conds (nested exploration inside an enclosing path) an outcome carries only the *decisions*
    taken inside; facts assumed inside (axiom instances, definitions of fresh symbols) are exported to the
    enclosing path, each guarded by the decisions under which it was assumed.
    """
    work = [[]]
    outs = []
    exported = []
    while work:
        prefix = work.pop()
        p = Path(prefix, base)
        CTX.paths.append(p)
        try:
            try:
                v = thunk()
                kind = 'ret'
            except PyRaise as e:
                v, kind = e.exc, 'exc'
            except Infeasible:
                continue
        finally:
            CTX.paths.pop()
            work.extend(p.pending)
        CTX.stats['paths'] += 1
        if want_local_conds == 'collect':
            # the caller exports the facts itself (sequence layer: universally quantified over the generic index)
            outs.append(Outcome(list(p.local), kind, v, p.obligations, [(list(p.local[:n]), fact) for n, fact in p.facts]))
        elif want_local_conds:
            outs.append(Outcome(list(p.local), kind, v, p.obligations))
            for n, fact in p.facts:
                exported.append(z3.Implies(z3.And(*p.local[:n]), fact) if n else fact)
        else:
            outs.append(Outcome(p.all_conds(), kind, v, p.obligations))
        if len(outs) > CTX.max_paths:
            raise PathExplosion()
    if want_local_conds and want_local_conds != 'collect' and CTX.paths:
        seen = set()
        for f in exported:
            if f.get_id() not in seen:
                seen.add(f.get_id())
                CTX.path.assume(f)
    return outs


# ----------------------------------------------------------------------------------------------
# numbers

def rv(x):
    """z3 real numeral for a concrete Python number (decimal reading of floats)."""
    if isinstance(x, bool):
        return z3.RealVal(int(x))
    if isinstance(x, int):
        return z3.RealVal(x)
    if isinstance(x, Fraction):
        return z3.RealVal(str(x))
    if isinstance(x, float):
        if not math.isfinite(x):
            raise OutOfSubset('non-finite float in arithmetic')
        return z3.RealVal(str(Fraction(repr(x))))
    raise TypeError(x)


def to_real(t):
    return z3.ToReal(t) if t.sort() == z3.IntSort() else t


class SNum:
    """Symbolic number: mathematical complex number (re, im), optionally integer-sorted.

    tag: None (finite) or z3 Int term 0=finite 1=inf 2=nan.
    np: value came out of numpy (division by zero does not raise).
    """
    __slots__ = ('re', 'im', 'tag', 'np', 'bigsum', 'absof')

    def __init__(self, re, im=None, tag=None, np=False, bigsum=None):
        self.re = re
        self.im = im    # None means exactly 0 (a real number)
        self.tag = tag
        self.np = np
        self.bigsum = bigsum
        self.absof = None     # (re, im) when this number is |re + j im|

    @property
    def is_int(self):
        return self.im is None and self.re.sort() == z3.IntSort()

    @property
    def is_real(self):
        return self.im is None

    def imz(self):
        return z3.RealVal(0) if self.im is None else self.im

    def rez(self):
        return to_real(self.re)

    def __repr__(self):
        return f'SNum({self.re}, {self.im})' + (f'[tag={self.tag}]' if self.tag is not None else '')


def is_num(x):
    return isinstance(x, (int, float, complex, Fraction, SNum)) and not isinstance(x, bool) or isinstance(x, bool)


def is_concrete_num(x):
    return isinstance(x, (int, float, complex, Fraction, bool))


def lift(x, as_np=False) -> SNum:
    if isinstance(x, SNum):
        return x
    if isinstance(x, bool):
        return SNum(z3.IntVal(int(x)))
    if isinstance(x, int):
        return SNum(z3.IntVal(x))
    if isinstance(x, Fraction):
        return SNum(rv(x))
    if isinstance(x, float):
        if math.isinf(x):
            return SNum(z3.RealVal(0), None, tag=z3.IntVal(1), np=as_np)
        if math.isnan(x):
            return SNum(z3.RealVal(0), None, tag=z3.IntVal(2), np=as_np)
        return SNum(rv(x), np=as_np)
    if isinstance(x, complex):
        if not (math.isfinite(x.real) and math.isfinite(x.imag)):
            return SNum(z3.RealVal(0), None, tag=z3.IntVal(2 if (math.isnan(x.real) or math.isnan(x.imag)) else 1), np=as_np)
        return SNum(rv(x.real), rv(x.imag), np=as_np)
    raise TypeError(f'cannot lift {x!r}')


def fresh_real(stem='r', np=False) -> SNum:
    return SNum(z3.Real(CTX.fresh(stem)), np=np)


def fresh_complex(stem='z', np=False) -> SNum:
    n = CTX.fresh(stem)
    return SNum(z3.Real(n + '.re'), z3.Real(n + '.im'), np=np)


def fresh_int(stem='n') -> SNum:
    return SNum(z3.Int(CTX.fresh(stem)))


class SBool:
    __slots__ = ('t',)

    def __init__(self, t):
        self.t = t

    def __repr__(self):
        return f'SBool({self.t})'


def zbool(x):
    """z3 Bool term of a bool-like value without forking."""
    if isinstance(x, SBool):
        return x.t
    if isinstance(x, bool):
        return z3.BoolVal(x)
    raise TypeError(f'not a bool: {x!r}')


class SLabel:
    """Symbolic string (node label / element id): an element of a dense total order."""
    __slots__ = ('t',)

    def __init__(self, t):
        self.t = t

    def __repr__(self):
        return f'SLabel({self.t})'


def label_term(x):
    if isinstance(x, SLabel):
        return x.t
    if isinstance(x, str):
        return CTX.string_const(x)
    raise TypeError(f'not a label: {x!r}')


def is_label(x):
    return isinstance(x, (str, SLabel))


class SChoice:
    """A value that depends on path-independent conditions; forcing it forks the current path."""
    __slots__ = ('alts',)

    def __init__(self, alts):
        self.alts = alts  # list of (z3 Bool, value); conditions are exhaustive and exclusive

    def __repr__(self):
        return f'SChoice({self.alts})'


def force(v):
    while isinstance(v, SChoice):
        for c, x in v.alts[:-1]:
            if CTX.path.branch(c):
                v = x
                break
        else:
            c, x = v.alts[-1]
            CTX.path.assume(c)
            v = x
    return v


# ----------------------------------------------------------------------------------------------
# interpreter-level objects


class ClassVal:
    def __init__(self, name, bases, ns, module=None):
        self.name, self.bases, self.ns, self.module = name, bases, ns, module
        self.dataclass = None    # dict(frozen=..., fields=[(name, default_kind, default)])
        self.mro = self._mro()
        self.qualname = name

    def _mro(self):
        out = [self]
        for b in self.bases:
            if isinstance(b, ClassVal):
                for c in b.mro:
                    if c not in out:
                        out.append(c)
        return out

    def lookup(self, name):
        for c in self.mro:
            if name in c.ns:
                return c.ns[name]
        raise KeyError(name)

    def has(self, name):
        return any(name in c.ns for c in self.mro)

    def issubclass(self, other):
        return other in self.mro

    def __repr__(self):
        return f'<class {self.name}>'


class Inst:
    def __init__(self, cls, attrs=None):
        self.cls = cls
        self.attrs = attrs if attrs is not None else {}

    def __repr__(self):
        return f'<{self.cls.name} {self.attrs}>'


class FunctionVal:
    def __init__(self, node, env, name, module=None, qualname=None, defaults=None, kw_defaults=None, owner=None):
        self.node, self.env, self.name, self.module = node, env, name, module
        self.qualname = qualname or name
        self.defaults = defaults or []
        self.kw_defaults = kw_defaults or {}
        self.owner = owner
        self.is_abstract = False

    def __repr__(self):
        return f'<function {self.qualname}>'


class BoundMethod:
    def __init__(self, fn, self_obj):
        self.fn, self.self_obj = fn, self_obj

    def __repr__(self):
        return f'<bound {self.fn!r}>'


class PropertyVal:
    def __init__(self, fget):
        self.fget = fget


class StaticVal:
    def __init__(self, fn):
        self.fn = fn


class ClassMethodVal:
    def __init__(self, fn):
        self.fn = fn


class Builtin:
    def __init__(self, name, fn):
        self.name, self.fn = name, fn

    def __repr__(self):
        return f'<builtin {self.name}>'


class PartialVal:
    def __init__(self, fn, args, kwargs):
        self.fn, self.args, self.kwargs = fn, args, kwargs


class ModuleVal:
    def __init__(self, name, ns=None, path=None):
        self.name, self.ns, self.path = name, ns if ns is not None else {}, path

    def __repr__(self):
        return f'<module {self.name}>'


class Opaque:
    """A value about which nothing is known (result of an unmodelled library call)."""

    def __init__(self, why):
        self.why = why

    def __repr__(self):
        return f'<opaque {self.why}>'


# ----------------------------------------------------------------------------------------------
# dictionaries and sets with symbolic keys


class IDict:
    """Insertion-ordered association list; key comparison may fork the current path."""

    def __init__(self, pairs=()):
        self.items_ = []
        for k, v in pairs:
            self.set(k, v)

    def _find(self, k):
        from .ops import eq_value, truth
        for idx in range(len(self.items_)):
            if truth(eq_value(self.items_[idx][0], k)):
                return idx
        return -1

    def _mutating(self, what):
        if getattr(self, 'frozen', False):
            from .seq import note_frame_violation
            note_frame_violation(what + ' on a dictionary that belongs to an input sequence')

    def set(self, k, v):
        self._mutating('item assignment')
        i = self._find(k)
        if i >= 0:
            self.items_[i] = (self.items_[i][0], v)
        else:
            self.items_.append((k, v))

    def get(self, k, default=None):
        i = self._find(k)
        return self.items_[i][1] if i >= 0 else default

    def has(self, k):
        return self._find(k) >= 0

    def pop(self, k, *default):
        self._mutating('pop/del')
        i = self._find(k)
        if i < 0:
            if default:
                return default[0]
            raise KeyError(k)
        return self.items_.pop(i)[1]

    def keys(self):
        return [k for k, _ in self.items_]

    def values(self):
        return [v for _, v in self.items_]

    def items(self):
        return list(self.items_)

    def copy(self):
        d = IDict()
        d.items_ = list(self.items_)
        return d

    def __len__(self):
        return len(self.items_)

    def __repr__(self):
        return 'IDict{' + ', '.join(f'{k!r}: {v!r}' for k, v in self.items_) + '}'


class ISet:
    def __init__(self, elems=()):
        self.elems = []
        for e in elems:
            self.add(e)

    def _find(self, x):
        from .ops import eq_value, truth
        for i, e in enumerate(self.elems):
            if truth(eq_value(e, x)):
                return i
        return -1

    def add(self, x):
        if self._find(x) < 0:
            self.elems.append(x)

    def has(self, x):
        return self._find(x) >= 0

    def remove(self, x):
        i = self._find(x)
        if i < 0:
            raise KeyError(x)
        self.elems.pop(i)

    def discard(self, x):
        i = self._find(x)
        if i >= 0:
            self.elems.pop(i)

    def copy(self):
        s = ISet()
        s.elems = list(self.elems)
        return s

    def __len__(self):
        return len(self.elems)

    def __repr__(self):
        return 'ISet{' + ', '.join(map(repr, self.elems)) + '}'


class AbstractCall:
    """Result of a call that is kept abstract (modular treatment of a callee: an uninterpreted function of its bound arguments)."""

    def __init__(self, name, args):
        self.name, self.args = name, args       # args: dict name -> value (defaults applied)

    def __repr__(self):
        return f'<{self.name}({", ".join(f"{k}={v!r}" for k, v in self.args.items())})>'
