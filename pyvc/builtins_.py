"""Builtins, stub modules (numpy scalar part, itertools, dataclasses, typing, ...) and attribute access on plain values."""
from __future__ import annotations
import math
from fractions import Fraction
import z3
from .values import (CTX, SNum, SBool, SLabel, SChoice, ClassVal, Inst, FunctionVal, BoundMethod, PropertyVal, StaticVal, Builtin,
                     PartialVal, ModuleVal, Opaque, IDict, ISet, OutOfSubset, PyRaise, force, lift, is_concrete_num, rv,
                     fresh_real, to_real)
from . import ops
from .ops import truth, eq_value, arith, compare, raise_py, norm_num
from .abstract import AList

# ------------------------------------------------------------------------------------------
# global symbols and axioms

PI = z3.Real('pi')
SQRT2 = z3.Real('sqrt2')
INV_PI = z3.Real('inv_pi')
INV_SQRT2 = z3.Real('inv_sqrt2')
COS = z3.Function('cos', z3.RealSort(), z3.RealSort())
SIN = z3.Function('sin', z3.RealSort(), z3.RealSort())
SQRT = z3.Function('sqrt', z3.RealSort(), z3.RealSort())
CABS = z3.Function('cabs', z3.RealSort(), z3.RealSort(), z3.RealSort())
CARG = z3.Function('carg', z3.RealSort(), z3.RealSort(), z3.RealSort())
EXP = z3.Function('exp', z3.RealSort(), z3.RealSort())
LOG10 = z3.Function('log10', z3.RealSort(), z3.RealSort())
ROUND = z3.Function('round', z3.RealSort(), z3.IntSort())

GLOBAL_AXIOMS = [
    PI > z3.RealVal('3.14159'), PI < z3.RealVal('3.1416'),
    SQRT2 > 0, SQRT2 * SQRT2 == 2,
    PI * INV_PI == 1, SQRT2 * INV_SQRT2 == 1,
]

CTX.global_axioms = GLOBAL_AXIOMS

AXIOM_LIST = [
    'pi is a real constant with 3.14159 < pi < 3.1416',
    'sqrt2 > 0 and sqrt2^2 = 2',
    'cos(t)^2 + sin(t)^2 = 1 for every term t the code or a contract applies cos/sin to',
    'cos(-t) = cos(t), sin(-t) = -sin(t)',
    'cos(t - pi/2) = sin(t), sin(t - pi/2) = -cos(t), cos(t + pi/2) = -sin(t), sin(t + pi/2) = cos(t)',
    'cos(0) = 1, sin(0) = 0',
    'sqrt(x) >= 0 and sqrt(x)^2 = x for x >= 0',
    'cabs(a,b) >= 0 and cabs(a,b)^2 = a^2 + b^2',
    'cabs(a,b)*cos(carg(a,b)) = a, cabs(a,b)*sin(carg(a,b)) = b, -pi < carg <= pi',
    'floor(x) = to_int(x); round(x) = half-to-even rounding of x',
    'x % T = x - T*floor(x/T)',
]


def sym_pi():
    return SNum(PI)


def _trig_facts(t):
    c, s = COS(t), SIN(t)
    h = PI / 2
    CTX.path.assume(z3.And(
        c * c + s * s == 1,
        COS(-t) == c, SIN(-t) == -s,
        COS(t - h) == s, SIN(t - h) == -c,
        COS(t + h) == -s, SIN(t + h) == c))


def sym_cos(x):
    x = norm_num(force(x))
    if is_concrete_num(x):
        if x == 0:
            return 1.0
        x = lift(float(x))
    if not isinstance(x, SNum):
        raise OutOfSubset('cos of non-number')
    if x.im is not None:
        raise OutOfSubset('cos of complex')
    t = z3.simplify(x.rez())
    _trig_facts(t)
    return SNum(COS(t), np=True)


def sym_sin(x):
    x = norm_num(force(x))
    if is_concrete_num(x):
        if x == 0:
            return 0.0
        x = lift(float(x))
    if not isinstance(x, SNum):
        raise OutOfSubset('sin of non-number')
    if x.im is not None:
        raise OutOfSubset('sin of complex')
    t = z3.simplify(x.rez())
    _trig_facts(t)
    return SNum(SIN(t), np=True)


def sym_exp(x):
    x = norm_num(force(x))
    if is_concrete_num(x) and x == 0:
        return 1.0
    x = lift(x)
    if x.im is None:
        return SNum(EXP(x.rez()), np=True)
    re_zero = z3.simplify(x.rez())
    if z3.is_rational_value(re_zero) and re_zero.numerator_as_long() == 0:
        im = SNum(x.im)
        c, s = sym_cos(im), sym_sin(im)
        return SNum(lift(c).rez(), lift(s).rez(), np=True)
    mag = SNum(EXP(x.rez()), np=True)
    im = SNum(x.im)
    return arith('*', mag, SNum(lift(sym_cos(im)).rez(), lift(sym_sin(im)).rez(), np=True))


def sym_sqrt(x):
    x = norm_num(force(x))
    if is_concrete_num(x):
        if isinstance(x, complex):
            raise OutOfSubset('sqrt of complex')
        if x == 2:
            return SNum(SQRT2, np=True)
        if x >= 0:
            r = math.isqrt(int(x)) if float(x).is_integer() else None
            if r is not None and r * r == x:
                return float(r)
        x = lift(float(x))
    if x.im is not None:
        raise OutOfSubset('sqrt of complex')
    t = z3.simplify(x.rez())
    CTX.path.assume(z3.Implies(t >= 0, z3.And(SQRT(t) >= 0, SQRT(t) * SQRT(t) == t)))
    return SNum(SQRT(t), np=True)


def sym_abs(x):
    x = norm_num(force(x))
    if is_concrete_num(x):
        return abs(x)
    if not isinstance(x, SNum):
        raise OutOfSubset('abs of ' + type(x).__name__)
    if x.im is None:
        return SNum(z3.simplify(z3.If(x.re >= 0, x.re, -x.re)), np=x.np)
    a, b = z3.simplify(x.rez()), z3.simplify(x.imz())
    r = CABS(a, b)
    CTX.path.assume(z3.And(r >= 0, r * r == a * a + b * b))
    out = SNum(r, np=x.np)
    out.absof = (a, b)
    return out


ops.num_abs = sym_abs


def sym_angle(x, deg=False):
    x = norm_num(force(x))
    if is_concrete_num(x):
        import cmath
        if x == 0:
            return 0.0
        x = lift(complex(x))
    a, b = z3.simplify(x.rez()), z3.simplify(x.imz())
    r, g = CABS(a, b), CARG(a, b)
    _trig_facts(g)
    CTX.path.assume(z3.And(r >= 0, r * r == a * a + b * b, r * COS(g) == a, r * SIN(g) == b, g > -PI, g <= PI,
                           z3.Implies(z3.And(a == 0, b == 0), g == 0)))
    out = SNum(g, np=True)
    if truth(deg):
        return arith('/', arith('*', out, 180), sym_pi())
    return out


def sym_floor(x):
    x = norm_num(force(x))
    if is_concrete_num(x):
        return float(math.floor(x))
    if x.im is not None:
        raise OutOfSubset('floor of complex')
    if x.is_int:
        return x
    return SNum(z3.ToReal(z3.ToInt(x.re)), np=True)


def sym_round(x, decimals=0):
    x = norm_num(force(x))
    if decimals != 0:
        raise OutOfSubset('round with decimals')
    if is_concrete_num(x):
        return float(round(x))
    if x.im is not None:
        raise OutOfSubset('round of complex')
    if x.is_int:
        return x
    t = z3.simplify(x.rez())
    r = ROUND(t)
    rr = z3.ToReal(r)
    half = z3.RealVal('1/2')
    CTX.path.assume(z3.And(rr - half <= t, t <= rr + half,
                           z3.Implies(t == rr + half, r % 2 == 0), z3.Implies(t == rr - half, r % 2 == 0)))
    return SNum(rr, np=True)


def is_finite(x):
    x = force(x)
    if isinstance(x, SNum):
        if x.tag is None:
            return True
        return SBool(z3.simplify(x.tag == 0))
    if isinstance(x, complex):
        return math.isfinite(x.real) and math.isfinite(x.imag)
    if is_concrete_num(x):
        return math.isfinite(x)
    from .arrays import AArr
    if isinstance(x, AArr):
        return x.map(is_finite)
    raise OutOfSubset('isfinite of ' + type(x).__name__)


def is_nan(x):
    x = force(x)
    if isinstance(x, SNum):
        if x.tag is None:
            return False
        return SBool(z3.simplify(x.tag == 2))
    if isinstance(x, complex):
        return math.isnan(x.real) or math.isnan(x.imag)
    if is_concrete_num(x):
        return math.isnan(x)
    from .arrays import AArr
    if isinstance(x, AArr):
        return x.map(is_nan)
    raise OutOfSubset('isnan of ' + type(x).__name__)


# ------------------------------------------------------------------------------------------
# exception classes

_EXC = {}


def _exc(name, base=None):
    c = ClassVal(name, [base] if base else [], {}, None)
    c.is_exception = True
    _EXC[name] = c
    return c


BaseExc = _exc('BaseException')
Exc = _exc('Exception', BaseExc)
for _n, _b in [('ArithmeticError', 'Exception'), ('ZeroDivisionError', 'ArithmeticError'), ('OverflowError', 'ArithmeticError'),
               ('LookupError', 'Exception'), ('KeyError', 'LookupError'), ('IndexError', 'LookupError'),
               ('ValueError', 'Exception'), ('TypeError', 'Exception'), ('AttributeError', 'Exception'),
               ('NameError', 'Exception'), ('ImportError', 'Exception'), ('ModuleNotFoundError', 'ImportError'),
               ('AssertionError', 'Exception'), ('OSError', 'Exception'), ('FileExistsError', 'OSError'),
               ('FileNotFoundError', 'OSError'), ('StopIteration', 'Exception'), ('RuntimeError', 'Exception'),
               ('NotImplementedError', 'RuntimeError'), ('FrozenInstanceError', 'AttributeError'),
               ('LinAlgError', 'ValueError'), ('UnicodeError', 'ValueError')]:
    _exc(_n, _EXC[_b])


def is_exception_class(cls):
    return BaseExc in cls.mro


def make_exception(name, *args):
    return Inst(_EXC[name], {'args': tuple(args)})


# ------------------------------------------------------------------------------------------
# builtin types

class BuiltinType(Builtin):
    def __init__(self, name, fn, check):
        super().__init__(name, fn)
        self.check = check


def _conc(x):
    x = force(x)
    if isinstance(x, (SNum, SBool, SLabel, Opaque, AList)):
        raise OutOfSubset(f'concrete value required, got {type(x).__name__}')
    return x


def b_float(args, kw):
    if not args:
        return 0.0
    x = norm_num(force(args[0]))
    if isinstance(x, SNum):
        if x.im is not None:
            raise_py('TypeError', 'float() argument must be a string or a real number, not complex')
        return SNum(x.rez(), None, None, x.np)
    if isinstance(x, complex):
        raise_py('TypeError', 'float() of complex')
    if isinstance(x, (int, float, bool)):
        return float(x)
    if isinstance(x, str):
        try:
            return float(x)
        except ValueError:
            raise_py('ValueError', 'could not convert string to float')
    if isinstance(x, SLabel):
        raise OutOfSubset('float() of symbolic string')
    if isinstance(x, Inst) and x.cls.has('__float__'):
        raise OutOfSubset('__float__')
    raise_py('TypeError', 'float() argument')


def b_int(args, kw):
    if not args:
        return 0
    x = norm_num(force(args[0]))
    if isinstance(x, SNum):
        if x.im is not None:
            raise_py('TypeError', 'int() of complex')
        if x.is_int:
            return x
        t = x.re
        return SNum(z3.If(t >= 0, z3.ToInt(t), -z3.ToInt(-t)))
    if isinstance(x, (int, float, bool)):
        if isinstance(x, float) and not math.isfinite(x):
            raise_py('OverflowError' if math.isinf(x) else 'ValueError')
        return int(x)
    if isinstance(x, str):
        try:
            return int(x)
        except ValueError:
            raise_py('ValueError', 'invalid literal for int()')
    raise OutOfSubset('int() of ' + type(x).__name__)


def b_complex(args, kw):
    a = list(args) + [kw[k] for k in ('real', 'imag') if k in kw]
    if not a:
        return 0j
    if len(a) == 1:
        x = norm_num(force(a[0]))
        if isinstance(x, SNum):
            return x
        if isinstance(x, (str, SLabel)):
            raise OutOfSubset('complex() of string')
        if is_concrete_num(x):
            return complex(x)
        raise_py('TypeError', 'complex() argument')
    x, y = norm_num(force(a[0])), norm_num(force(a[1]))
    for v in (x, y):
        if not (isinstance(v, SNum) or is_concrete_num(v)):
            raise_py('TypeError', 'complex() argument must be a number')
    if is_concrete_num(x) and is_concrete_num(y):
        try:
            return complex(x, y)
        except TypeError:
            raise_py('TypeError', 'complex() arguments')
    # x + 1j*y
    return arith('+', x, arith('*', SNum(z3.RealVal(0), z3.RealVal(1)), y))


def b_str(args, kw):
    if not args:
        return ''
    x = force(args[0])
    if isinstance(x, (SLabel,)):
        return x
    if isinstance(x, SNum):
        return Opaque('str of symbolic number')
    if isinstance(x, Inst):
        if x.cls.has('__str__'):
            return interp_ref[0].call(interp_ref[0].getattr(x, '__str__'), [], {})
        return Opaque('str of instance')
    if isinstance(x, (list, tuple, IDict, ISet, Opaque)):
        return Opaque('str of container')
    return str(x)


def b_bool(args, kw):
    if not args:
        return False
    x = force(args[0])
    if isinstance(x, (bool, SBool)):
        return x
    return truth(x)


def b_len(args, kw):
    x = force(args[0])
    if isinstance(x, (list, tuple, str, IDict, ISet)):
        return len(x)
    if isinstance(x, AList):
        return x.len_value()
    if isinstance(x, Inst) and x.cls.has('__len__'):
        return interp_ref[0].call(interp_ref[0].getattr(x, '__len__'), [], {})
    from .arrays import AArr
    if isinstance(x, AArr):
        return x.shape[0]
    from .seq import ASet, ADict, ACounter
    if isinstance(x, (ASet, ADict, ACounter)):
        return x.len_value()
    raise OutOfSubset('len of ' + type(x).__name__)


def b_sum(args, kw):
    it = force(args[0])
    start = args[1] if len(args) > 1 else kw.get('start', 0)
    if isinstance(it, AList):
        from . import seq
        return seq.bigsum(it, start)
    acc = start
    for x in interp_ref[0].iterate(it):
        acc = interp_ref[0].binop('+', acc, x)
    return acc


def sort_values(vals, key=None, reverse=False):
    I = interp_ref[0]
    keyed = [(I.call(key, [v], {}) if key is not None else v, v) for v in vals]
    out = []
    for k, v in keyed:
        pos = len(out)
        # stable insertion: move left while strictly smaller (or larger for reverse)
        while pos > 0:
            kk = out[pos - 1][0]
            lt = truth(compare('>' if reverse else '<', k, kk))
            if lt:
                pos -= 1
            else:
                break
        out.insert(pos, (k, v))
    return [v for _, v in out]


def b_sorted(args, kw):
    it = force(args[0])
    key = kw.get('key')
    reverse = truth(kw.get('reverse', False))
    if isinstance(it, AList):
        from . import seq
        return seq.sorted_(it, key, reverse)
    from .seq import ASet
    if isinstance(it, ASet):
        from . import seq
        return seq.sorted_(it, key, reverse)
    return sort_values(interp_ref[0].iterate(it), key, reverse)


def b_list(args, kw):
    if not args:
        return []
    it = force(args[0])
    if isinstance(it, AList):
        return it.clone()
    from .seq import ASet, ADict
    if isinstance(it, ASet):
        from . import seq
        return seq.list_of_set(it)
    if isinstance(it, ADict):
        return it.keys_al()
    return list(interp_ref[0].iterate(it))


def b_tuple(args, kw):
    if not args:
        return ()
    return tuple(interp_ref[0].iterate(args[0]))


def b_set(args, kw):
    if not args:
        return ISet()
    it = force(args[0])
    if isinstance(it, AList):
        from . import seq
        return seq.set_of(it)
    from .seq import ASet, ADict
    if isinstance(it, ASet):
        return it
    if isinstance(it, ADict):
        from . import seq
        return seq.set_of(it.keys_al())
    return ISet(interp_ref[0].iterate(it))


def b_dict(args, kw):
    d = IDict()
    if args:
        src = force(args[0])
        from . import seq
        if isinstance(src, seq.ADict) and not kw:
            return seq.ADict(src.al)
        if isinstance(src, AList) and not kw:
            return seq.make_adict(src)
        if isinstance(src, IDict):
            d = src.copy()
        else:
            for pair in interp_ref[0].iterate(src):
                k, v = interp_ref[0].iterate(pair)
                d.set(k, v)
    for k, v in kw.items():
        d.set(k, v)
    return d


def b_enumerate(args, kw):
    start = args[1] if len(args) > 1 else kw.get('start', 0)
    it = force(args[0])
    if isinstance(it, AList):
        from . import seq
        return seq.enumerate_(it, start)
    return [(start + i, x) for i, x in enumerate(interp_ref[0].iterate(it))]


def b_zip(args, kw):
    its = [force(a) for a in args]
    from .seq import CountVal
    if any(isinstance(i, CountVal) for i in its):
        if any(isinstance(i, AList) for i in its):
            from . import seq
            return seq.zip_(its)
        finite = [interp_ref[0].iterate(i) for i in its if not isinstance(i, CountVal)]
        if not finite:
            raise OutOfSubset('zip of unbounded counters only')
        n = min(len(f) for f in finite)
        cols = [([ops.arith('+', i.start, ops.arith('*', i.step, k)) for k in range(n)] if isinstance(i, CountVal) else interp_ref[0].iterate(i)[:n]) for i in its]
        return [tuple(t) for t in zip(*cols)]
    if any(isinstance(i, AList) for i in its):
        from . import seq
        return seq.zip_(its)
    lists = [interp_ref[0].iterate(a) for a in its]
    return [tuple(t) for t in zip(*lists)]


def b_range(args, kw):
    a = [interp_ref[0]._conc_index(x) for x in args]
    return list(range(*a))


def b_map(args, kw):
    fn = args[0]
    if len(args) == 2 and isinstance(force(args[1]), AList):
        return force(args[1]).mapfilter(lambda x: interp_ref[0].call(fn, [x], {}), 'map')
    lists = [interp_ref[0].iterate(a) for a in args[1:]]
    return [interp_ref[0].call(fn, list(t), {}) for t in zip(*lists)]


def b_filter(args, kw):
    fn = args[0]
    if isinstance(force(args[1]), AList):
        from .seq import ABSENT
        return force(args[1]).mapfilter(lambda x: x if truth(interp_ref[0].call(fn, [x], {}) if fn is not None else x) else ABSENT, 'filter')
    return [x for x in interp_ref[0].iterate(args[1]) if truth(interp_ref[0].call(fn, [x], {}) if fn is not None else x)]


def b_any(args, kw):
    it = force(args[0])
    if isinstance(it, AList):
        return it.any_()
    from .arrays import AArr
    if isinstance(it, AArr):
        return it.any_()
    vals = interp_ref[0].iterate(it)
    if all(isinstance(force(v), (bool, SBool)) for v in vals):
        return ops.s_or(*[force(v) for v in vals])
    for v in vals:
        if truth(v):
            return True
    return False


def b_all(args, kw):
    it = force(args[0])
    if isinstance(it, AList):
        return it.all_()
    vals = interp_ref[0].iterate(it)
    if all(isinstance(force(v), (bool, SBool)) for v in vals):
        return ops.s_and(*[force(v) for v in vals])
    for v in vals:
        if not truth(v):
            return False
    return True


def _minmax(args, kw, op):
    vals = interp_ref[0].iterate(args[0]) if len(args) == 1 else list(args)
    key = kw.get('key')
    if not vals:
        if 'default' in kw:
            return kw['default']
        raise_py('ValueError', 'min()/max() of empty sequence')
    best = vals[0]
    bk = interp_ref[0].call(key, [best], {}) if key else best
    for v in vals[1:]:
        k = interp_ref[0].call(key, [v], {}) if key else v
        if truth(compare(op, k, bk)):
            best, bk = v, k
    return best


def type_check(x, t):
    """isinstance(x, t) for one class/type object t -> bool"""
    x = force(x)
    if isinstance(t, ClassVal):
        if isinstance(x, Inst):
            return x.cls.issubclass(t)
        return False
    if isinstance(t, BuiltinType):
        return t.check(x)
    if isinstance(t, Opaque):
        raise OutOfSubset('isinstance against opaque type')
    raise OutOfSubset(f'isinstance against {t!r}')


def b_isinstance(args, kw):
    x, t = args
    ts = t if isinstance(t, tuple) else (t,)
    return any(type_check(x, c) for c in ts)


def b_issubclass(args, kw):
    c, t = args
    ts = t if isinstance(t, tuple) else (t,)
    return isinstance(c, ClassVal) and any(isinstance(x, ClassVal) and c.issubclass(x) for x in ts)


def b_type(args, kw):
    x = force(args[0])
    if isinstance(x, Inst):
        return x.cls
    for name, t in TYPES.items():
        if name != 'object' and t.check(x):
            if name == 'int' and isinstance(x, bool):
                continue
            return t
    raise OutOfSubset('type() of ' + type(x).__name__)


def b_hasattr(args, kw):
    try:
        interp_ref[0].getattr(args[0], _conc(args[1]))
        return True
    except PyRaise as e:
        if e.exc.cls.issubclass(_EXC['AttributeError']):
            return False
        raise


def b_getattr(args, kw):
    try:
        return interp_ref[0].getattr(args[0], _conc(args[1]))
    except PyRaise as e:
        if len(args) > 2 and e.exc.cls.issubclass(_EXC['AttributeError']):
            return args[2]
        raise


def b_abs(args, kw):
    x = force(args[0])
    if isinstance(x, Inst) and x.cls.has('__abs__'):
        return interp_ref[0].call(interp_ref[0].getattr(x, '__abs__'), [], {})
    from .arrays import AArr
    if isinstance(x, AArr):
        return x.map(sym_abs)
    return sym_abs(x)


def b_round(args, kw):
    nd = args[1] if len(args) > 1 else kw.get('ndigits')
    x = norm_num(force(args[0]))
    if is_concrete_num(x) and (nd is None or isinstance(nd, int)):
        return round(x, nd) if nd is not None else round(x)
    if nd is None:
        r = sym_round(x)
        return SNum(z3.ToInt(r.re)) if isinstance(r, SNum) else int(r)
    raise OutOfSubset('round with digits on symbolic value')


def b_property(args, kw):
    return PropertyVal(args[0])


_NODEFAULT = object()


def b_next(args, kw):
    it = force(args[0])
    from .abstract import AList as _AL
    if isinstance(it, _AL):
        if truth(ops.compare('>', it.len_value(), 0)):
            return it.getitem(0)
        xs = []
    else:
        xs = interp_ref[0].iterate(it)
    if xs:
        return xs[0]
    if len(args) > 1:
        return args[1]
    raise_py('StopIteration')


def b_staticmethod(args, kw):
    return StaticVal(args[0])


def b_classmethod(args, kw):
    from .values import ClassMethodVal
    return ClassMethodVal(args[0])


def b_print(args, kw):
    return None


def b_iter(args, kw):
    return list(interp_ref[0].iterate(args[0]))


def b_repr(args, kw):
    x = force(args[0])
    if isinstance(x, (int, float, complex, str, bool)) or x is None:
        return repr(x)
    return Opaque('repr')


class VFile:
    """A file of the virtual file system: what a path returned by spec.json_file denotes (its text) - also its own open handle."""
    def __init__(self, text):
        self.text = text

    def pyvc_attr(self, I, name):
        if name == 'read':
            return Builtin('file.read', lambda a, k: self.text)
        if name in ('close', '__exit__'):
            return Builtin('file.' + name, lambda a, k: None)
        if name == '__enter__':
            return Builtin('file.__enter__', lambda a, k: self)
        raise_py('AttributeError', name)


def b_open(args, kw):
    f = force(args[0])
    if isinstance(f, VFile):
        mode = args[1] if len(args) > 1 else kw.get('mode', 'r')
        if isinstance(mode, str) and 'w' in mode:
            raise OutOfSubset('writing files')
        return f
    raise OutOfSubset('file I/O')


def b_callable(args, kw):
    return isinstance(force(args[0]), (FunctionVal, Builtin, BoundMethod, ClassVal, PartialVal))


def _is_number_kind(x, kind):
    if isinstance(x, bool):
        return kind in ('int', 'bool')
    if kind == 'bool':
        return isinstance(x, SBool)
    if isinstance(x, SNum):
        if kind == 'complex':
            return x.im is not None
        if kind == 'int':
            return x.is_int
        if kind == 'float':
            return x.im is None and not x.is_int
    if kind == 'int':
        return isinstance(x, int)
    if kind == 'float':
        return isinstance(x, float)
    if kind == 'complex':
        return isinstance(x, complex)
    return False


TYPES = {}


def _mk_types():
    TYPES['float'] = BuiltinType('float', b_float, lambda x: _is_number_kind(x, 'float'))
    TYPES['int'] = BuiltinType('int', b_int, lambda x: _is_number_kind(x, 'int'))
    TYPES['complex'] = BuiltinType('complex', b_complex, lambda x: _is_number_kind(x, 'complex'))
    TYPES['bool'] = BuiltinType('bool', b_bool, lambda x: isinstance(x, (bool, SBool)))
    TYPES['str'] = BuiltinType('str', b_str, lambda x: isinstance(x, (str, SLabel)))
    TYPES['list'] = BuiltinType('list', b_list, lambda x: isinstance(x, (list, AList)))
    TYPES['tuple'] = BuiltinType('tuple', b_tuple, lambda x: isinstance(x, tuple))
    TYPES['dict'] = BuiltinType('dict', b_dict, lambda x: isinstance(x, IDict))
    TYPES['set'] = BuiltinType('set', b_set, lambda x: isinstance(x, ISet))
    TYPES['object'] = BuiltinType('object', lambda a, k: Inst(OBJECT, {}), lambda x: True)
    TYPES['type'] = BuiltinType('type', b_type, lambda x: isinstance(x, (ClassVal, BuiltinType)))


OBJECT = ClassVal('object', [], {}, None)
_mk_types()
interp_ref = [None]


def make_builtins(interp):
    interp_ref[0] = interp
    b = dict(TYPES)
    for name, fn in [('len', b_len), ('sum', b_sum), ('sorted', b_sorted), ('enumerate', b_enumerate), ('zip', b_zip),
                     ('range', b_range), ('map', b_map), ('filter', b_filter), ('any', b_any), ('all', b_all),
                     ('min', lambda a, k: _minmax(a, k, '<')), ('max', lambda a, k: _minmax(a, k, '>')),
                     ('isinstance', b_isinstance), ('issubclass', b_issubclass), ('hasattr', b_hasattr), ('getattr', b_getattr),
                     ('abs', b_abs), ('round', b_round), ('property', b_property), ('staticmethod', b_staticmethod), ('classmethod', b_classmethod), ('next', b_next),
                     ('print', b_print), ('iter', b_iter), ('repr', b_repr), ('open', b_open), ('callable', b_callable)]:
        b[name] = Builtin(name, fn)
    b.update(_EXC)
    b['None'] = None
    b['True'] = True
    b['False'] = False
    b['NotImplemented'] = Opaque('NotImplemented')
    b['__name__'] = '__interpreted__'
    return b


# ------------------------------------------------------------------------------------------
# stub modules

class DefaultIDict(IDict):
    """collections.defaultdict: a missing key is created from the factory on item access."""
    def __init__(self, factory):
        super().__init__()
        self.factory = factory


class StubModule(ModuleVal):
    is_stub = True

    def __init__(self, name, table=None, opaque=True):
        super().__init__(name, {}, None)
        self.table = table or {}
        self.opaque = opaque

    def get(self, name):
        if name in self.table:
            return self.table[name]
        if self.opaque:
            return Opaque(f'{self.name}.{name}')
        raise_py('AttributeError', f'module {self.name} has no attribute {name}')


def _B(name, f):
    """Builtin from a positional function.  A call shape the stub does not model is outside the subset (not a checker error)."""
    def call(args, kw):
        try:
            return f(*args, **kw)
        except TypeError as e:
            import traceback
            tb = traceback.extract_tb(e.__traceback__)
            if len(tb) <= 1:          # raised by the call itself (arity / keyword mismatch), not inside the stub
                raise OutOfSubset(f'{name}: call shape not modelled ({e})')
            raise
    return Builtin(name, call)


def _dataclass(args, kw):
    def apply(cls):
        ann = cls.ns.get('__annotations__', [])
        fields = []
        for name, annot in (ann if isinstance(ann, list) else []):
            if annot.startswith('ClassVar'):
                continue
            f = {'name': name, 'init': True, 'has_default': False, 'default': None, 'default_factory': None, 'compare': True}
            if name in cls.ns:
                v = cls.ns[name]
                from .interp import FieldSpec
                if isinstance(v, FieldSpec):
                    f.update(init=v.init, has_default=v.has_default, default=v.default, default_factory=v.default_factory, compare=v.compare)
                    if v.has_default:
                        cls.ns[name] = v.default
                    else:
                        del cls.ns[name]
                elif isinstance(v, PropertyVal):
                    pass
                else:
                    f.update(has_default=True, default=v)
            fields.append(f)
        cls.dataclass = {'frozen': bool(kw.get('frozen', False)), 'fields': fields, 'eq': kw.get('eq', True)}
        return cls
    if args:
        return apply(args[0])
    return Builtin('dataclass()', lambda a, k: apply(a[0]))


def _field(args, kw):
    from .interp import FieldSpec
    MISSING = object()
    d = kw.get('default', MISSING)
    return FieldSpec(default=None if d is MISSING else d, default_factory=kw.get('default_factory'), init=truth(kw.get('init', True)),
                     has_default=d is not MISSING, compare=truth(kw.get('compare', True)))


def _asdict(args, kw):
    def conv(v):
        v = force(v)
        if isinstance(v, Inst) and ops.is_dataclass(v.cls):
            return IDict([(f['name'], conv(v.attrs[f['name']])) for f in ops.dataclass_fields(v.cls)])
        if isinstance(v, list):
            return [conv(x) for x in v]
        if isinstance(v, tuple):
            return tuple(conv(x) for x in v)
        if isinstance(v, IDict):
            return IDict([(k, conv(x)) for k, x in v.items()])
        return v
    return conv(args[0])


def _partial(args, kw):
    return PartialVal(args[0], list(args[1:]), dict(kw))


def _product(args, kw):
    I = interp_ref[0]
    its = [force(a) for a in args]
    rep = kw.get('repeat', 1)
    if any(isinstance(i, AList) for i in its):
        from . import seq
        return seq.product_(its, rep)
    lists = [I.iterate(a) for a in its] * rep
    import itertools
    return [tuple(t) for t in itertools.product(*lists)]


def _identity_decorator(args, kw):
    return args[0]


def _abstractmethod(args, kw):
    f = args[0]
    if isinstance(f, FunctionVal):
        f.is_abstract = True
    return f


def _typing_obj(name):
    return Opaque('typing.' + name)


PROTOCOL = ClassVal('Protocol', [], {}, None)
ABC = ClassVal('ABC', [], {}, None)


def stub_module(dotted):
    from . import arrays
    if dotted == 'numpy':
        return arrays.numpy_module()
    if dotted == 'numpy.linalg':
        return arrays.numpy_module().get('linalg')
    if dotted == 'math':
        return StubModule('math', {
            'pi': sym_pi(), 'inf': math.inf, 'nan': math.nan,
            'cos': _B('cos', sym_cos), 'sin': _B('sin', sym_sin), 'sqrt': _B('sqrt', sym_sqrt),
            'floor': _B('floor', lambda x: b_int([sym_floor(x)], {})), 'isfinite': _B('isfinite', is_finite),
            'isnan': _B('isnan', is_nan), 'radians': _B('radians', lambda x: arith('/', arith('*', x, sym_pi()), 180)),
        })
    if dotted == 'itertools':
        def chain(args, kw):
            out = []
            for a in args:
                out.extend(interp_ref[0].iterate(a))
            return out
        chain_b = Builtin('chain', chain)
        chain_b.attrs = {'from_iterable': Builtin('chain.from_iterable', lambda a, k: chain([x for x in interp_ref[0].iterate(a[0])], {}))}
        def filterfalse(fn, it):
            it = force(it)
            keep = lambda x: not truth(interp_ref[0].call(fn, [x], {}) if fn is not None else x)
            if isinstance(it, AList):
                from .seq import ABSENT
                return it.mapfilter(lambda x: x if keep(x) else ABSENT, 'filterfalse')
            return [x for x in interp_ref[0].iterate(it) if keep(x)]

        def count(start=0, step=1):
            from .seq import CountVal
            return CountVal(start, step)
        return StubModule('itertools', {'product': Builtin('product', _product), 'chain': chain_b, 'filterfalse': _B('filterfalse', filterfalse),
                                        'count': _B('count', count),
                                        'repeat': _B('repeat', lambda x, n: [x] * interp_ref[0]._conc_index(n)),
                                        'islice': _B('islice', lambda it, n: list(interp_ref[0].iterate(it))[:interp_ref[0]._conc_index(n)])})
    if dotted == 'dataclasses':
        return StubModule('dataclasses', {'dataclass': Builtin('dataclass', _dataclass), 'field': Builtin('field', _field),
                                          'asdict': Builtin('asdict', _asdict),
                                          'FrozenInstanceError': _EXC['FrozenInstanceError']})
    if dotted == 'functools':
        def reduce(fn, it, *init):
            I = interp_ref[0]
            xs = I.iterate(it)
            if init:
                acc = init[0]
            elif xs:
                acc, xs = xs[0], xs[1:]
            else:
                raise_py('TypeError', 'reduce() of empty iterable with no initial value')
            for x in xs:
                acc = I.call(fn, [acc, x], {})
            return acc

        def memoised(fn):
            # functools.lru_cache / cache, modelled faithfully: results are remembered per argument tuple (argument equality as
            # Python's ==, so objects without value equality are keyed by identity) for the duration of one path execution
            def call(a, k):
                table = CTX.__dict__.setdefault('memo_tables', {}).setdefault(id(fn), [])
                for a0, k0, r0 in table:
                    if len(a0) == len(a) and set(k0) == set(k) and all(truth(eq_value(x, y)) for x, y in zip(a0, a)) and all(truth(eq_value(k0[n], k[n])) for n in k):
                        return r0
                r = interp_ref[0].call(fn, list(a), dict(k))
                table.append((list(a), dict(k), r))
                return r
            b = Builtin('lru_cache:' + getattr(fn, 'name', '?'), call)
            b.attrs = {'cache_clear': Builtin('cache_clear', lambda a, k: CTX.__dict__.setdefault('memo_tables', {}).pop(id(fn), None)), '__wrapped__': fn}
            return b

        def cache_deco(args, kw):
            if args and not kw and isinstance(args[0], (FunctionVal, BoundMethod)):
                return memoised(args[0])
            return Builtin('lru_cache(...)', lambda a, k: memoised(a[0]))
        return StubModule('functools', {'partial': Builtin('partial', _partial), 'reduce': _B('reduce', reduce),
                                        'lru_cache': Builtin('lru_cache', cache_deco), 'cache': Builtin('cache', cache_deco),
                                        'wraps': Builtin('wraps', lambda a, k: Builtin('wraps(...)', lambda a2, k2: a2[0]))})
    if dotted == 'operator':
        I_ = lambda: interp_ref[0]

        def itemgetter(*keys):
            if len(keys) == 1:
                return _B('itemgetter(...)', lambda obj: I_().getitem(obj, keys[0]))
            return _B('itemgetter(...)', lambda obj: tuple(I_().getitem(obj, k) for k in keys))

        def attrgetter(*names):
            def one(obj, name):
                for part in name.split('.'):
                    obj = I_().getattr(obj, part)
                return obj
            if len(names) == 1:
                return _B('attrgetter(...)', lambda obj: one(obj, names[0]))
            return _B('attrgetter(...)', lambda obj: tuple(one(obj, n) for n in names))
        binops = {'add': '+', 'sub': '-', 'mul': '*', 'truediv': '/'}
        def methodcaller(name, *margs, **mkw):
            return _B('methodcaller(...)', lambda obj: I_().call(I_().getattr(obj, name), list(margs), dict(mkw)))
        table = {'itemgetter': _B('itemgetter', itemgetter), 'attrgetter': _B('attrgetter', attrgetter), 'methodcaller': _B('methodcaller', methodcaller),
                 'neg': _B('neg', lambda x: ops.neg(x)), 'eq': _B('eq', lambda a, b: eq_value(a, b)),
                 'not_': _B('not_', lambda x: ops.s_not(truth(x) if not isinstance(force(x), (bool, SBool)) else force(x)))}
        for nm, op in binops.items():
            table[nm] = _B(nm, (lambda op: lambda a, b: I_().binop(op, a, b))(op))
        for nm, op in {'lt': '<', 'le': '<=', 'gt': '>', 'ge': '>='}.items():
            table[nm] = _B(nm, (lambda op: lambda a, b: compare(op, a, b))(op))
        return StubModule('operator', table)
    if dotted == 'abc':
        return StubModule('abc', {'ABC': ABC, 'abstractmethod': Builtin('abstractmethod', _abstractmethod)})
    if dotted == 'typing':
        m = StubModule('typing', {'Protocol': PROTOCOL, 'TypeVar': Builtin('TypeVar', lambda a, k: Opaque('TypeVar'))})
        return m
    if dotted == 'json':
        return StubModule('json', {'dumps': _B('json.dumps', lambda x, **kw: _text_dump('json', x)), 'loads': _B('json.loads', lambda t: _text_load('json', t)),
                                   'load': _B('json.load', lambda f: _text_load('json', f)), 'dump': Builtin('json.dump', lambda a, k: _raise_oos('file I/O'))})
    if dotted == 'yaml':
        return StubModule('yaml', {'dump': _B('yaml.dump', lambda x, **kw: _text_dump('yaml', x)), 'safe_load': _B('yaml.safe_load', lambda t: _text_load('yaml', t)),
                                   'load': _B('yaml.load', lambda t, *a, **k: _text_load('yaml', t))})
    if dotted.split('.')[0] == 'schemdraw':
        from . import schemdraw_model
        return schemdraw_model.module(dotted)
    if dotted == 'enum':
        return StubModule('enum', {'Enum': ClassVal('Enum', [], {}, None)})
    if dotted == 'contextlib':
        class _Suppress:
            def __init__(self, excs):
                self.suppresses = excs
        return StubModule('contextlib', {'suppress': Builtin('suppress', lambda a, k: _Suppress(list(a)))})
    if dotted == 'collections':
        def defaultdict(args, kw):
            d = DefaultIDict(args[0] if args else None)
            if len(args) > 1:
                for k, v in force(args[1]).items():
                    d.set(k, v)
            return d

        def unmodelled(name):
            def f(args, kw):
                raise OutOfSubset('collections.' + name + ' is not modelled')
            return Builtin('collections.' + name, f)
        def namedtuple(args, kw):
            # a frozen dataclass with the given fields that can also be indexed, iterated and measured like a tuple
            typename = force(args[0])
            fields = force(args[1])
            if isinstance(fields, str):
                fields = fields.replace(',', ' ').split()
            fields = [str(f) for f in interp_ref[0].iterate(fields)]
            defaults = list(interp_ref[0].iterate(kw['defaults'])) if 'defaults' in kw else []
            cls = ClassVal(typename, [], {'__annotations__': [(f, 'Any') for f in fields]}, None)
            for f, d in zip(fields[len(fields) - len(defaults):], defaults):
                cls.ns[f] = d

            def method(name, fn):
                b = Builtin(typename + '.' + name, lambda a, k: fn(*a, **k))
                b.is_method = True
                cls.ns[name] = b
            method('__getitem__', lambda self, i: [self.attrs[f] for f in fields][interp_ref[0]._conc_index(i)])
            method('__iter__', lambda self: [self.attrs[f] for f in fields])
            method('__len__', lambda self: len(fields))
            method('_asdict', lambda self: IDict([(f, self.attrs[f]) for f in fields]))
            method('_replace', lambda self, **kw2: Inst(cls, {**self.attrs, **kw2}))
            cls.ns['_fields'] = tuple(fields)
            _dataclass([cls], {'frozen': True})
            return cls
        def counter(args, kw):
            from . import seq
            d = DefaultIDict(Builtin('int', lambda a, k: 0))
            if args:
                src = force(args[0])
                if isinstance(src, (AList, seq.ASet, seq.ADict)):
                    return seq.counter_of(seq.as_al(src))
                for x in interp_ref[0].iterate(src):
                    d.set(x, ops.arith('+', d.get(x, 0), 1))
            return d
        return StubModule('collections', {'defaultdict': Builtin('defaultdict', defaultdict), 'namedtuple': Builtin('namedtuple', namedtuple),
                                          'Counter': Builtin('Counter', counter), 'OrderedDict': Builtin('OrderedDict', b_dict), 'deque': unmodelled('deque')})
    if dotted in ('pyvc.spec', 'pyvc'):
        from . import specsym
        return specsym.spec_module()
    return StubModule(dotted, {})


# ------------------------------------------------------------------------------------------
# assumed contract of json / yaml (DESIGN sec. 4): dumps/loads are inverse to each other on trees of
# dict[str, ...], list, str, bool, int, finite float; anything else (complex, objects) is rejected by dumps.

class SerialText:
    def __init__(self, fmt, payload):
        self.fmt, self.payload = fmt, payload

    def __repr__(self):
        return f'<{self.fmt} text>'


def _raise_oos(msg):
    raise OutOfSubset(msg)


def _tree_copy(x, fmt, dumping):
    x = force(x)
    if x is None or isinstance(x, (bool, SBool, str, SLabel, int)):
        return x
    if isinstance(x, float):
        return x
    if isinstance(x, SNum):
        if x.im is not None:
            raise_py('TypeError', f'Object of type complex is not {fmt} serializable')
        return x
    if isinstance(x, complex):
        raise_py('TypeError', f'Object of type complex is not {fmt} serializable')
    if isinstance(x, (list, tuple)):
        return [_tree_copy(v, fmt, dumping) for v in x]        # tuples come back as lists
    if isinstance(x, IDict):
        out = IDict()
        items = list(x.items())
        if dumping and fmt in ('yaml', 'yml') and all(isinstance(force(k), str) for k, _ in items):
            items.sort(key=lambda kv: kv[0])        # yaml.dump sorts mapping keys (sort_keys=True is its default)
        for k, v in items:
            if not isinstance(force(k), (str, SLabel)):
                raise OutOfSubset('non-string dictionary key in a serialised tree')
            out.items_.append((k, _tree_copy(v, fmt, dumping)))
        return out
    raise_py('TypeError', f'Object of type {type(x).__name__} is not {fmt} serializable')


def _text_dump(fmt, x):
    return SerialText(fmt, _tree_copy(x, fmt, True))


def _text_load(fmt, t):
    t = force(t)
    if isinstance(t, VFile):
        t = t.text
    if not isinstance(t, SerialText):
        raise OutOfSubset('parsing of arbitrary text')
    if {'yml': 'yaml'}.get(t.fmt, t.fmt) != {'yml': 'yaml'}.get(fmt, fmt):
        raise OutOfSubset(f'{t.fmt} text parsed by the {fmt} parser: outside the assumed contract of the serialisers')
    return _tree_copy(t.payload, fmt, False)


# ------------------------------------------------------------------------------------------
# attributes of plain values

def _native_str_method(s, name):
    def call(args, kw):
        a = [_conc(x) for x in args]
        k = {n: _conc(v) for n, v in kw.items()}
        try:
            r = getattr(s, name)(*a, **k)
        except (ValueError, TypeError, IndexError) as e:
            raise_py(type(e).__name__, str(e))
        return r
    return Builtin('str.' + name, call)


def _list_method(I, lst, name):
    def append(x):
        lst.append(x)

    def extend(xs):
        lst.extend(I.iterate(xs))

    def insert(i, x):
        lst.insert(I._conc_index(i), x)

    def remove(x):
        for i, y in enumerate(lst):
            if truth(eq_value(y, x)):
                del lst[i]
                return None
        raise_py('ValueError', 'list.remove(x): x not in list')

    def pop(i=-1):
        try:
            return lst.pop(I._conc_index(i))
        except IndexError:
            raise_py('IndexError', 'pop from empty list')

    def index(x):
        for i, y in enumerate(lst):
            if truth(eq_value(y, x)):
                return i
        raise_py('ValueError', 'x not in list')

    def count(x):
        n = 0
        for y in lst:
            if truth(eq_value(y, x)):
                n += 1
        return n

    def sort(key=None, reverse=False):
        lst[:] = sort_values(list(lst), key, truth(reverse))

    def reverse():
        lst.reverse()

    def copy():
        return list(lst)

    def clear():
        lst.clear()
    table = dict(append=append, extend=extend, insert=insert, remove=remove, pop=pop, index=index, count=count, sort=sort,
                 reverse=reverse, copy=copy, clear=clear)
    if name not in table:
        raise_py('AttributeError', f'list has no attribute {name}')
    return _B('list.' + name, table[name])


def _dict_method(I, d, name):
    def get(k, default=None):
        return d.get(k, default)

    def pop(k, *default):
        if not d.has(k):
            if default:
                return default[0]
            raise_py('KeyError', k)
        return d.pop(k)

    def update(*others, **kw):
        for other in others:
            other = force(other)
            if isinstance(other, IDict):
                for k, v in other.items():
                    d.set(k, v)
            else:
                for pair in I.iterate(other):
                    k, v = I.iterate(pair)
                    d.set(k, v)
        for k, v in kw.items():
            d.set(k, v)

    def setdefault(k, default=None):
        if d.has(k):
            return d.get(k)
        d.set(k, default)
        return default

    def clear():
        d._mutating('clear')
        d.items_.clear()
    table = dict(keys=d.keys, values=d.values, items=d.items, get=get, pop=pop, update=update, copy=d.copy, setdefault=setdefault, clear=clear)
    if name not in table:
        raise_py('AttributeError', f'dict has no attribute {name}')
    return _B('dict.' + name, table[name])


def _set_method(I, s, name):
    def union(*others):
        out = s.copy()
        for o in others:
            for x in I.iterate(o):
                out.add(x)
        return out

    def intersection(*others):
        out = ISet()
        for x in s.elems:
            if all(truth(I.contains(o, x)) for o in others):
                out.add(x)
        return out

    def difference(*others):
        out = ISet()
        for x in s.elems:
            if not any(truth(I.contains(o, x)) for o in others):
                out.add(x)
        return out

    def remove(x):
        if not s.has(x):
            raise_py('KeyError', x)
        s.remove(x)

    def pop():
        if not s.elems:
            raise_py('KeyError', 'pop from an empty set')
        return s.elems.pop(-1 if CTX.set_reversed else 0)

    def update(*others):
        for o in others:
            for x in I.iterate(o):
                s.add(x)

    def issubset(o):
        return all(truth(I.contains(o, x)) for x in s.elems)
    table = dict(add=s.add, union=union, intersection=intersection, difference=difference, remove=remove, discard=s.discard,
                 pop=pop, copy=s.copy, update=update, issubset=issubset)
    if name not in table:
        raise_py('AttributeError', f'set has no attribute {name}')
    return _B('set.' + name, table[name])


def value_attr(I, obj, name):
    if isinstance(obj, SNum) or is_concrete_num(obj):
        if name == 'real':
            return ops.real_part(obj)
        if name == 'imag':
            return ops.imag_part(obj)
        if name in ('conjugate', 'conj'):
            return _B('conjugate', lambda: ops.conj(obj))
        if name == 'is_integer' and isinstance(obj, float):
            return _B('is_integer', obj.is_integer)
        if name == 'shape':
            return ()
        raise_py('AttributeError', f'number has no attribute {name}')
    if isinstance(obj, str):
        if hasattr(obj, name):
            return _native_str_method(obj, name)
        raise_py('AttributeError', f'str has no attribute {name}')
    if isinstance(obj, SLabel):
        raise OutOfSubset(f'method {name} of a symbolic string')
    if isinstance(obj, list):
        return _list_method(I, obj, name)
    if isinstance(obj, tuple):
        if name in ('index', 'count'):
            return _list_method(I, list(obj), name)
        if len(obj) == 2 and name in ('x', 'y'):        # schemdraw.util.Point
            return obj[0] if name == 'x' else obj[1]
        raise_py('AttributeError', f'tuple has no attribute {name}')
    if isinstance(obj, IDict):
        return _dict_method(I, obj, name)
    if isinstance(obj, ISet):
        return _set_method(I, obj, name)
    if isinstance(obj, AList):
        return obj.attr(I, name)
    from .arrays import AArr
    if isinstance(obj, AArr):
        return obj.attr(I, name)
    from .seq import ASet, ADict, ACounter
    if isinstance(obj, (ASet, ADict, ACounter)):
        return obj.attr(I, name)
    if isinstance(obj, FunctionVal):
        if name == '__name__':
            return obj.name
        raise_py('AttributeError', name)
    if isinstance(obj, Builtin) and name in getattr(obj, 'attrs', {}):
        return obj.attrs[name]
    if isinstance(obj, BuiltinType):
        if name == '__name__':
            return obj.name
    if isinstance(obj, Opaque):
        return Opaque(obj.why + '.' + name)
    if obj is None:
        raise_py('AttributeError', f"'NoneType' object has no attribute '{name}'")
    if isinstance(obj, (bool, SBool)):
        raise_py('AttributeError', name)
    native = getattr(obj, 'pyvc_attr', None)
    if native is not None:
        return native(I, name)
    raise OutOfSubset(f'attribute {name} of {type(obj).__name__}')
