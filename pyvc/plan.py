"""Which sidecars, lemma files, extra obligation groups and stand-ins decide which property (DESIGN 7)."""
from __future__ import annotations

COMMON_ASSUMPTIONS = [
    'numbers are mathematical reals/complex numbers: no rounding, overflow or signed zero (DESIGN 3.1(1))',
    'transcendental functions are uninterpreted symbols constrained by the axiom list in pyvc/builtins_.py AXIOM_LIST (DESIGN 3.1(2))',
    'strings (labels, ids) are elements of a dense total order; string content is not modelled (DESIGN 3.1(3))',
    'parameter and dataclass field annotations fix the sort of a value; no model of dynamic type errors beyond attribute/keyword checks (DESIGN 3.1(4))',
    'dict iterates in insertion order; sorted is a stable sort (DESIGN 3.1(6))',
    'exception messages are dropped, only the exception class is tracked (DESIGN 3.1(7))',
    'termination is not proved (DESIGN 3.1(8))',
    'callees without contract are inlined (listed per function under "inlined"); library callees follow the assumed contracts of DESIGN sec. 4',
    'the symbolic executor itself (pyvc) is trusted; it is cross-checked against CPython on sampled inputs on every run, which is a test, not a proof',
]

TRUSTED = {
    'z3': 'z3 5.1 (python3-vt wheel) decides the verification conditions; cvc5 1.0.3 second opinion on unknown',
    'numpy-scalar': 'numpy scalar functions cos, sin, exp, sqrt, abs, angle, round, floor, isfinite follow their mathematical definitions',
    'numpy-array': 'numpy array plumbing (zeros, eye, diag, hstack, vstack, concatenate, delete, where, any, T, real, item get/set, reshape) follows the numpy reference entrywise',
    'solve': 'np.linalg.solve(A,b) returns the exact x with A x = b for nonsingular A and raises LinAlgError for singular A; np.linalg.inv likewise',
    'lsim': 'scipy.signal.lsim returns the exact response of the LTI system for the piecewise-linear interpolant of the input, from zero initial state',
    'cpython': 'CPython 3.12 semantics of the modelled subset (dataclasses, dict order, argument binding)',
    'ring': 'polynomial identities in the solver results are decided by normalisation in the field of rational functions (sympy, exact) for small terms and by Schwartz-Zippel evaluation at 4 random points of Z_p, p = 2^61-1 and 2^89-1 (one-sided error < 1e-60) for large ones; back end recorded per query as ring(exact) / ring(pit)',
    'json': 'json.dumps/loads and yaml.dump/safe_load are inverse to each other on trees of dict[str,..], list, str, bool, int, finite float and reject complex numbers (DESIGN sec. 4)',
    'frame': 'the FRAME rules of pyvc/frame.py (which expressions allocate, which calls mutate) are a hand-written model of Python/numpy aliasing; numpy basic indexing is treated as a view, library calls not listed as allocating are treated as returning shared objects',
    'schemdraw': 'schemdraw 0.19 is replaced by the interface model pyvc/schemdraw_model.py: constructor keywords are kept in _userparams, placement/styling methods have no effect on the netlist logic, terminal points of a placed element are absanchors[start/end] (given by the contracts), Point is a pair; placement geometry is covered only by the real-schemdraw stand-in',
    'sympy': 'sympy 1.14 exact symbolic integration / summation / simplification of polynomial-times-exponential integrands (Fourier-integral lemma of C08): a computer-algebra computation, trusted, not a kernel-checked proof',
    'lean': 'Lean 4.33 kernel + Mathlib for spec-level lemmas (axioms: propext, Classical.choice, Quot.sound)',
}

PROPS = {}


def all_properties():
    return sorted(PROPS)


def trusted_base(spec):
    return [TRUSTED[k] for k in spec.get('trusted', ['z3', 'cpython'])]


def assumptions(spec):
    return COMMON_ASSUMPTIONS + list(spec.get('assumptions', []))


def register(pid, **kw):
    PROPS[pid] = kw


from . import plan_props  # noqa: E402,F401  (fills PROPS)
