#!/usr/bin/env python3
"""setup_cmd: create output directories and verify the tool chain (offline)."""
import os, shutil, sys
here = os.path.dirname(os.path.abspath(__file__))
for d in ("evidence", "replays"):
    os.makedirs(os.path.join(here, d), exist_ok=True)
missing = [t for t in ("/venv/bin/python",) if not os.path.exists(t)]
try:
    import z3  # noqa
except Exception as e:  # pragma: no cover
    missing.append("z3-solver python module (%s)" % e)
if missing:
    print("setup: missing", missing); sys.exit(1)
print("setup ok")
